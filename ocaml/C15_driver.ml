(* C15 driver: runs the extracted FIFO machine (FifoDefs.v) on the schedule recorded by the
   C++ harness and prints the same canonical lines with the model's own outputs.

   input lines (everything after '|' is the implementation's output and is ignored here):
     C <id> k=<k> L=<L> dual=<0|1> lvlF=<n> lvlE=<n> ...   start a case (state := init)
     E <P|O|B> <pushReq> <data> <popReq> | ...              one time instant with clock edge(s)
     G <w> <x> | ...                                        gray code case: enc(x), dec_w(x)
   output: the same prefix followed by the model's  full af empty ae peek acc del   resp.  enc dec.
   usage: driver <in> <out> *)
open C15_model

let rec pos_of_int n = if n = 1 then XH else if n land 1 = 0 then XO (pos_of_int (n lsr 1)) else XI (pos_of_int (n lsr 1))
let n_of_int n = if n = 0 then N0 else Npos (pos_of_int n)
let rec int_of_pos = function XH -> 1 | XO p -> 2 * int_of_pos p | XI p -> 2 * int_of_pos p + 1
let int_of_n = function N0 -> 0 | Npos p -> int_of_pos p
let rec nat_of_int n = if n <= 0 then O else S (nat_of_int (n - 1))

let b2s b = if b then "1" else "0"
let kv tok = match String.index_opt tok '=' with
  | Some i -> Some (String.sub tok 0 i, String.sub tok (i + 1) (String.length tok - i - 1))
  | None -> None

let () =
  let ic = open_in Sys.argv.(1) and oc = open_out Sys.argv.(2) in
  let cfg = ref { c_k = N0; c_lat = nat_of_int 1; c_dual = false; c_lvlF = N0; c_lvlE = N0 } in
  let st = ref (init !cfg) in
  let tst = ref (tinit !cfg) in
  let ft = ref false and in_strm = ref false in
  (try
     while true do
       let line = input_line ic in
       let lhs = match String.index_opt line '|' with Some i -> String.trim (String.sub line 0 i) | None -> String.trim line in
       let toks = List.filter (fun s -> s <> "") (String.split_on_char ' ' lhs) in
       match toks with
       | "C" :: _id :: rest ->
         let get name = let r = ref 0 in
           List.iter (fun t -> match kv t with Some (k, v) when k = name -> r := int_of_string v | _ -> ()) rest; !r in
         cfg := { c_k = n_of_int (get "k"); c_lat = nat_of_int (get "L"); c_dual = (get "dual" <> 0);
                  c_lvlF = n_of_int (get "lvlF"); c_lvlE = n_of_int (get "lvlE") };
         st := init !cfg;
         output_string oc (lhs ^ "\n")
       | [ "E"; kind; pr; data; po ] ->
         let pe, oe = (match kind with "P" -> (true, false) | "O" -> (false, true) | _ -> (true, true)) in
         let ev = { e_push = pe; e_pop = oe; e_pushReq = (pr = "1"); e_data = n_of_int (int_of_string data);
                    e_popReq = (po = "1"); e_metaP = false; e_metaG = false } in
         let o = observe !cfg !st ev in
         Printf.fprintf oc "%s | %s %s %s %s %s %s %s\n" lhs (b2s o.o_full) (b2s o.o_afull) (b2s o.o_empty) (b2s o.o_aempty)
           (match o.o_peek with Some v -> string_of_int (int_of_n v) | None -> "X")
           (match o.o_acc with Some _ -> "1" | None -> "0") (b2s o.o_del);
         st := step !cfg !st ev
       | "T" :: _id :: rest ->
         let get name = let r = ref 0 in
           List.iter (fun t -> match kv t with Some (k, v) when k = name -> (try r := int_of_string v with _ -> ()) | _ -> ()) rest; !r in
         cfg := { c_k = n_of_int (get "k"); c_lat = nat_of_int (get "L"); c_dual = false; c_lvlF = N0; c_lvlE = N0 };
         tst := tinit !cfg; in_strm := false;
         output_string oc (lhs ^ "\n")
       | [ "t"; pr; data; po; pc; cut; prb; oc_; orb ] ->
         let ev = { te_pushReq = (pr = "1"); te_data = n_of_int (int_of_string data); te_commit = (pc = "1");
                    te_cutoff = n_of_int (int_of_string cut); te_rollback = (prb = "1"); te_popReq = (po = "1");
                    te_popCommit = (oc_ = "1"); te_popRollback = (orb = "1") } in
         let o = tobserve !tst in
         Printf.fprintf oc "%s | %s %s %s\n" lhs (b2s o.to_full) (b2s o.to_empty)
           (match o.to_peek with Some v -> string_of_int (int_of_n v) | None -> "X");
         tst := tstep !cfg !tst ev
       | "S" :: _id :: rest ->
         let get name = let r = ref 0 in
           List.iter (fun t -> match kv t with Some (k, v) when k = name -> (try r := int_of_string v with _ -> ()) | _ -> ()) rest; !r in
         cfg := { c_k = n_of_int (get "k"); c_lat = nat_of_int (get "L"); c_dual = false; c_lvlF = N0; c_lvlE = N0 };
         st := init !cfg; ft := (get "ft" <> 0); in_strm := true;
         output_string oc (lhs ^ "\n")
       | [ "s"; v; data; r ] when !in_strm ->
         let i = { si_valid = (v = "1"); si_data = n_of_int (int_of_string data); si_ready = (r = "1") } in
         let o = strm_out !ft !st i in
         Printf.fprintf oc "%s | %s %s %s\n" lhs (b2s o.so_ready) (b2s o.so_valid)
           (match o.so_data with Some x -> string_of_int (int_of_n x) | None -> "X");
         st := strm_step !cfg !ft !st i
       | ("s" | "a") :: _ -> output_string oc (line ^ "\n")
       | [ "G"; w; x ] ->
         let xi = n_of_int (int_of_string x) in
         Printf.fprintf oc "%s | %d %d\n" lhs (int_of_n (gray_enc xi)) (int_of_n (gray_dec (nat_of_int (int_of_string w)) xi))
       | [] -> ()
       | _ -> output_string oc (lhs ^ " | ?\n")
     done
   with End_of_file -> ());
  close_in ic; close_out oc
