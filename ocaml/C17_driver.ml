(* C17 driver: evaluates the extracted Coq model (C17_model) on the case file the C++
   harness consumed and prints the same canonical lines.
     driver <casefile>
   line  "<prim> <params...> : <operands...>"  ->  "<same> -> <outputs...>"
   Values are lower-case hex; X = undefined output; ? = pipeline not yet filled
   (python treats ? as a wildcard). *)
open C17_model

(* ---------------------------------------------------------------- conversions *)
let rec nat_of_int (i : int) : nat = if i <= 0 then O else S (nat_of_int (i - 1))

let n_of_bitlist (bl : bool list) : n =
  (* bl LSB first *)
  let rec strip = function [] -> [] | l -> (match List.rev l with false :: r -> strip (List.rev r) | _ -> l) in
  let bl = strip bl in
  match List.rev bl with
  | [] -> N0
  | _ :: msb_first_rest ->
    (* highest bit is 1 *)
    let p = List.fold_left (fun acc b -> if b then XI acc else XO acc) XH msb_first_rest in
    Npos p

let n_of_hex (s : string) : n =
  let bl = ref [] in (* LSB first *)
  String.iter (fun c ->
    let v = match c with
      | '0'..'9' -> Char.code c - 48
      | 'a'..'f' -> Char.code c - 87
      | 'A'..'F' -> Char.code c - 55
      | _ -> failwith ("bad hex " ^ s) in
    (* prepend this nibble as more significant: we build MSB-first then reverse *)
    bl := !bl @ [ (v lsr 3) land 1 = 1; (v lsr 2) land 1 = 1; (v lsr 1) land 1 = 1; v land 1 = 1 ]) s;
  n_of_bitlist (List.rev !bl)

let n_of_int (i : int) : n =
  let rec bl i = if i = 0 then [] else (i land 1 = 1) :: bl (i lsr 1) in
  n_of_bitlist (bl i)

let bitlist_of_n (x : n) : bool list = (* LSB first *)
  let rec go p = match p with XH -> [ true ] | XO q -> false :: go q | XI q -> true :: go q in
  match x with N0 -> [] | Npos p -> go p

let int_of_n (x : n) : int =
  List.fold_right (fun b acc -> acc * 2 + (if b then 1 else 0)) (bitlist_of_n x) 0

let hex_of_n (x : n) : string =
  let bl = bitlist_of_n x in
  if bl = [] then "0" else begin
    let arr = Array.of_list bl in
    let len = Array.length arr in
    let nn = (len + 3) / 4 in
    let b = Buffer.create nn in
    for k = nn - 1 downto 0 do
      let v = ref 0 in
      for j = 3 downto 0 do
        let idx = 4 * k + j in
        v := !v * 2 + (if idx < len && arr.(idx) then 1 else 0)
      done;
      Buffer.add_char b "0123456789abcdef".[!v]
    done;
    Buffer.contents b
  end

let hb (b : bool) = if b then "1" else "0"
let bool_of_hex s = (int_of_n (n_of_hex s)) <> 0

let split_on c s = List.filter (fun x -> x <> "") (String.split_on_char c s)

(* value of a priority-encoder result of width w *)
let pe_str (w : n) ((v, valid) : pe_result) sep =
  let vs = if w = N0 then "0" else (match v with Some x -> hex_of_n x | None -> "X") in
  vs ^ sep ^ hb valid

(* ---------------------------------------------------------------- dispatch *)
let eval (prim : string) (p : int list) (ops : string list) : string =
  let pn k = List.nth p k in
  let pnat k = nat_of_int (pn k) in
  let pN k = n_of_int (pn k) in
  let o k = n_of_hex (List.nth ops k) in
  match prim with
  | "bitcount" -> hex_of_n (m_bitcount (pnat 0) (o 0))
  | "decoder" -> hex_of_n (m_decoder (pnat 0) (o 0))
  | "encoder" -> hex_of_n (m_encoder (pnat 0) (o 0))
  | "prienc" -> pe_str (prienc_width (pN 0)) (m_prienc (pnat 0) (o 0)) " "
  | "pritree" -> pe_str (petree_width (pN 1) (pN 0)) (m_petree (pnat 0) (pN 1) (o 0)) " "
  | "pritreereg" ->
    let w = petree_width (pN 1) (pN 0) in
    let res = m_petree_reg (pnat 0) (pN 1) (List.map n_of_hex ops) in
    String.concat " " (List.map (function None -> "?,?" | Some r -> pe_str w r ",") res)
  | "clz" -> hex_of_n (m_clz (pnat 0) (o 0))
  | "thermo" -> hex_of_n (m_thermo (pnat 0) (o 0))
  | "thermow" -> hex_of_n (m_thermow (pnat 0) (pnat 1) (o 0))
  | "unthermo" -> hex_of_n (m_unthermo (pnat 0) (o 0))
  | "grayenc" -> hex_of_n (m_grayenc (pnat 0) (o 0))
  | "graydec" -> hex_of_n (m_graydec (pnat 0) (o 0))
  | "grayrt" -> hex_of_n (m_graydec (pnat 0) (m_grayenc (pnat 0) (o 0)))
  | "min" -> hex_of_n (umin (o 0) (o 1))
  | "max" -> hex_of_n (umax (o 0) (o 1))
  | "smin" -> hex_of_n (smin (pN 0) (o 0) (o 1))
  | "smax" -> hex_of_n (smax (pN 0) (o 0) (o 1))
  | "bpo2" -> hex_of_n (m_bpo2 (pnat 0) (o 0))
  | "ldiv" -> hex_of_n (ldiv (pnat 0) (pN 1) (o 0) (o 1))
  | "sldiv" -> (match sldiv_gen (pnat 0) (pN 1) (o 0) (o 1) with Some v -> hex_of_n v | None -> "EXCEPTION")
  | "ldivp" ->
    let tr = List.map (fun c -> match split_on ',' c with [ a; b ] -> (n_of_hex a, n_of_hex b) | _ -> failwith "ldivp cycle") ops in
    String.concat " " (List.map (function None -> "?" | Some q -> hex_of_n q) (m_ldivp (pnat 0) (pN 1) (pN 2) tr))
  | "addc" -> let (s, c) = addc (pN 0) (o 0) (o 1) (bool_of_hex (List.nth ops 2)) in hex_of_n s ^ " " ^ hex_of_n c
  | "addcs" -> let (s, c) = m_addcs (pnat 0) (o 0) (o 1) (o 2) in hex_of_n s ^ " " ^ hex_of_n c
  | "csa" ->
    let ((s, isum), icarry) = m_csa (pnat 0) (List.map n_of_hex ops) in
    if pn 1 >= 2 then hex_of_n s ^ " " ^ hex_of_n isum ^ " " ^ hex_of_n icarry
    else hex_of_n s ^ " " ^ hex_of_n isum
  | "crc" -> hex_of_n (crc (pN 0) (pN 1) (pN 2) (o 0) (o 1) (o 2))
  | "crcst" ->
    let prm = { cp_w = pN 0; cp_poly = o 0; cp_init = o 1; cp_xorout = o 2;
                cp_revdata = bool_of_hex (List.nth ops 3); cp_revcrc = bool_of_hex (List.nth ops 4) } in
    let words = List.map n_of_hex (List.filteri (fun i _ -> i >= 5) ops) in
    hex_of_n (crc_state_run prm (pN 1) words)
  | "crcwk" -> hex_of_n (crc_state_run (crc_preset (pN 0)) (pN 1) (List.map n_of_hex ops))
  | "cntend" | "cntw" | "cntdyn" ->
    let never = (pn 2 = 0) in
    let cfg = match prim with
      | "cntend" -> counter_cfg_end (pN 0) (pN 1) never
      | "cntw" -> counter_cfg_w (pN 0) (pN 1) never
      | _ -> counter_cfg_dyn (pN 0) (pN 1) never in
    let static_end = match prim with
      | "cntend" -> pN 0
      | "cntw" -> n_of_bitlist (List.init (pn 0 + 1) (fun i -> i = pn 0))   (* 2^w *)
      | _ -> N0 in
    let tr = List.map (fun c ->
      match split_on ',' c with
      | i :: d :: l :: lv :: rest ->
        { ci_inc = (not never) && bool_of_hex i; ci_dec = (not never) && bool_of_hex d; ci_load = bool_of_hex l; ci_loadv = n_of_hex lv;
          ci_end = (match rest with [ e ] -> n_of_hex e | _ -> static_end) }
      | _ -> failwith "counter cycle") ops in
    let outs = counter_run cfg cfg.cc_reset tr in
    String.concat " " (List.map (fun (((v, l), f), bf) -> hex_of_n v ^ "," ^ hb l ^ "," ^ hb f ^ "," ^ hb bf) outs)
  | "cntv" ->
    (* cntv ctor E rv bind scope ldkind : inc,dec,en,load,loadValue[,end] *)
    let bind = pn 3 in
    let u = { cu_inc = (bind land 1 <> 0); cu_dec = (bind land 2 <> 0); cu_scope = pN 4; cu_ldkind = pN 5 } in
    let never = counter_never u in
    let cfg = match pn 0 with
      | 0 -> counter_cfg_end (pN 1) (pN 2) never
      | 1 -> counter_cfg_w (pN 1) (pN 2) never
      | _ -> counter_cfg_dyn (pN 1) (pN 2) never in
    let static_end = match pn 0 with
      | 0 -> pN 1
      | 1 -> n_of_bitlist (List.init (pn 1 + 1) (fun i -> i = pn 1))
      | _ -> N0 in
    let tr = List.map (fun c ->
      match split_on ',' c with
      | i :: d :: e :: l :: lv :: rest ->
        counter_use_in cfg u (bool_of_hex i) (bool_of_hex d) (bool_of_hex e) (bool_of_hex l) (n_of_hex lv)
          (match rest with [ en ] -> n_of_hex en | _ -> static_end)
      | _ -> failwith "cntv cycle") ops in
    let outs = counter_run cfg cfg.cc_reset tr in
    String.concat " " (List.map (fun (((v, l), f), bf) -> hex_of_n v ^ "," ^ hb l ^ "," ^ hb f ^ "," ^ hb bf) outs)
  | "adder" -> hex_of_n (adder_run (pN 0) (List.map n_of_hex ops))
  | "thermom" -> hex_of_n (m_thermow (pnat 0) (pnat 1) (o 0))
  | "crcmx" ->
    let prm = { cp_w = pN 0; cp_poly = o 0; cp_init = o 1; cp_xorout = o 2;
                cp_revdata = bool_of_hex (List.nth ops 3); cp_revcrc = bool_of_hex (List.nth ops 4) } in
    let ws = List.filteri (fun i _ -> i >= 5) ops in
    let widths = List.tl p in
    hex_of_n (crc_state_run_mixed prm (List.map2 (fun d w -> (n_of_int d, n_of_hex w)) widths ws))
  | "updown" ->
    let tr = List.map (fun c -> match split_on ',' c with
      | [ i; d; r ] -> ((bool_of_hex i, bool_of_hex d), bool_of_hex r) | _ -> failwith "updown cycle") ops in
    String.concat " " (List.map hex_of_n (updown_run (pN 0) (pN 1) (pN 1) tr))
  | _ -> "UNKNOWN-PRIMITIVE"

let () =
  let ic = open_in Sys.argv.(1) in
  (try
    while true do
      let line = input_line ic in
      if line <> "" && line.[0] <> '#' then begin
        let head, tail =
          match Str.bounded_split_delim (Str.regexp_string " : ") line 2 with
          | [ h; t ] -> (h, t) | [ h ] -> (h, "") | _ -> (line, "") in
        match split_on ' ' head with
        | prim :: params ->
          let res = (try eval prim (List.map int_of_string params) (split_on ' ' tail)
                     with e -> "MODEL-EXCEPTION " ^ Printexc.to_string e) in
          print_string line; print_string " -> "; print_endline res
        | [] -> ()
      end
    done
  with End_of_file -> ());
  close_in ic
