(* Driver around the extracted circuit model (NetDefs / ProductCert):
     tie  <net> <trace>                 run the model on the dumped netlist under the stimuli and event
                                        schedule of the real simulator's trace; compare pin values per cycle
     cert <netA> <netB> <trace> <budget>  product reachability of A x B (unverified BFS proposes the state
                                        sets, the VERIFIED checker check_cert accepts or rejects them)
     batch <file>                        one command per line
   The live cone of the dump (everything that can influence an output pin or a register) is the model. *)
open Net_model

let rec nat_of_int n = if n <= 0 then O else S (nat_of_int (n - 1))
let rec int_of_nat = function O -> 0 | S n -> 1 + int_of_nat n

let bv_of_string s : bv =
  if s = "e" || s = "-" then [] else
  let n = String.length s in
  List.init n (fun i -> match s.[n - 1 - i] with '0' -> B0 | '1' -> B1 | _ -> BX)
let string_of_bv (b : bv) =
  if b = [] then "e" else
  String.concat "" (List.rev_map (function B0 -> "0" | B1 -> "1" | BX -> "X") b)

exception Unsupported of string

type rawnode = { id : int; toks : string list; drv : (int * int) option list }

let split s = List.filter (fun x -> x <> "") (String.split_on_char ' ' s)

let read_lines f =
  let ic = open_in f in
  let r = ref [] in
  (try while true do r := input_line ic :: !r done with End_of_file -> ());
  close_in ic; List.rev !r

let parse_drv s = if s = "-" then None else
  match String.split_on_char '.' s with
  | [a; b] -> Some (int_of_string a, int_of_string b)
  | _ -> failwith ("bad driver " ^ s)

let parse_net file : rawnode list =
  let lines = read_lines file in
  if List.exists (fun l -> String.length l >= 4 && String.sub l 0 4 = "SKIP") lines then raise (Unsupported "skipped design");
  (* the cycle semantics has ONE rising-edge clock: registers on several clocks, or on a clock that does not
     trigger on the rising edge only, are outside the model (the differential oracle still covers them) *)
  let trig = Hashtbl.create 7 in
  List.iter (fun l -> match split l with
    | "clock" :: id :: rest -> List.iter (fun t -> if String.length t > 5 && String.sub t 0 5 = "trig=" then Hashtbl.replace trig id (String.sub t 5 (String.length t - 5))) rest
    | _ -> ()) lines;
  let regclk = List.filter_map (fun l ->
    if String.length l > 2 && l.[0] = 'N' && l.[1] = ' ' then
      (match String.index_opt l '|' with
       | Some i -> (match split (String.sub l 2 (i - 2)) with
                    | _ :: "reg" :: rest when rest <> [] -> Some (List.nth rest (List.length rest - 1))
                    | _ -> None)
       | None -> None)
    else None) lines in
  (match List.sort_uniq compare regclk with
   | [] -> ()
   | [c] -> (match Hashtbl.find_opt trig c with Some "0" | None -> () | Some _ -> raise (Unsupported "register clock not rising-edge"))
   | _ -> raise (Unsupported "registers on several clocks"));
  List.filter_map (fun l ->
    if String.length l > 2 && l.[0] = 'N' && l.[1] = ' ' then begin
      match String.index_opt l '|' with
      | None -> None
      | Some i ->
        let head = split (String.sub l 2 (i - 2)) and tl = split (String.sub l (i + 1) (String.length l - i - 1)) in
        (match head with
         | ids :: toks -> Some { id = int_of_string ids; toks; drv = List.map parse_drv tl }
         | [] -> None)
    end else None) lines

let logic_of = function "AND" -> L_AND | "NAND" -> L_NAND | "OR" -> L_OR | "NOR" -> L_NOR | "XOR" -> L_XOR | "EQ" -> L_EQ | "NOT" -> L_NOT | s -> failwith s
let arith_of = function "ADD" -> A_ADD | "SUB" -> A_SUB | "MUL" -> A_MUL | "DIV" -> A_DIV | "REM" -> A_REM | s -> failwith s
let cmp_of = function "EQ" -> C_EQ | "NEQ" -> C_NEQ | "LT" -> C_LT | "GT" -> C_GT | "LEQ" -> C_LEQ | "GEQ" -> C_GEQ | s -> failwith s
let fwd_of = function "SIGNAL" -> FW_SIGNAL | "ATTRIBUTES" -> FW_ATTRIBUTES | "CDC" -> FW_CDC | "REGHINT" -> FW_REGHINT
  | "RETIMING_BLOCKER" -> FW_RETIMING_BLOCKER | "EXPORT_OVERRIDE" -> FW_EXPORT_OVERRIDE | s -> failwith s
let ni s = nat_of_int (int_of_string s)

type cls = CIn of string | COut of string | CReg | CComb | COpq

let classify (n : rawnode) =
  match n.toks with
  | "pin" :: _ :: "10" :: name :: _ -> CIn name
  | "pin" :: _ :: "01" :: name :: _ -> COut name
  | "pin" :: _ -> raise (Unsupported "bidirectional pin")
  | "reg" :: _ -> CReg
  | "opaque" :: _ -> COpq
  | _ -> CComb

let rec ranges = function
  | w :: src :: a :: b :: rest ->
    let s = match src with "I" -> RW_INPUT (ni a, ni b) | "Z" -> RW_ZERO | "O" -> RW_ONE | _ -> RW_UNDEF in
    { rw_width = ni w; rw_src = s } :: ranges rest
  | [] -> []
  | _ -> failwith "bad rewire"

(* builds the Coq netlist: sources, combinational nodes in topological order, output pins *)
let build_netlist (raw : rawnode list) : netlist * string list * string list =
  let tbl = Hashtbl.create 97 in
  List.iter (fun n -> Hashtbl.replace tbl n.id n) raw;
  let get id = try Hashtbl.find tbl id with Not_found -> raise (Unsupported "dangling driver") in
  let ins = List.filter (fun n -> match classify n with CIn _ -> true | _ -> false) raw in
  let nm n = match classify n with CIn s | COut s -> s | _ -> "" in
  let ins = List.sort (fun a b -> compare (nm a, a.id) (nm b, b.id)) ins in
  let outs = List.filter (fun n -> match classify n with COut _ -> true | _ -> false) raw in
  let outs = List.sort (fun a b -> compare (nm a, a.id) (nm b, b.id)) outs in
  let regs = List.filter (fun n -> classify n = CReg) raw in
  (* live cone + topological order of combinational nodes *)
  let pos = Hashtbl.create 97 in
  let order = ref [] in
  let count = ref 0 in
  let place n = Hashtbl.replace pos n.id !count; incr count; order := n :: !order in
  List.iter place ins; List.iter place regs;
  let visiting = Hashtbl.create 97 in
  let rec visit id =
    if not (Hashtbl.mem pos id) then begin
      if Hashtbl.mem visiting id then raise (Unsupported "combinational loop");
      Hashtbl.replace visiting id ();
      let n = get id in
      (match classify n with
       | CComb -> List.iter (function Some (d, _) -> visit d | None -> ()) n.drv
       | COpq -> ()
       | COut _ -> raise (Unsupported "output pin used as driver")
       | _ -> ());
      place n
    end in
  List.iter (fun n -> List.iter (function Some (d, _) -> visit d | None -> ()) n.drv) regs;
  List.iter (fun n -> (match n.drv with Some (d, _) :: _ -> visit d | _ -> ())) outs;
  List.iter place outs;
  let drv d = match d with None -> None | Some (id, p) -> Some (nat_of_int (Hashtbl.find pos id), nat_of_int p) in
  let in_ord = Hashtbl.create 7 and reg_ord = Hashtbl.create 7 in
  List.iteri (fun i n -> Hashtbl.replace in_ord n.id i) ins;
  List.iteri (fun i n -> Hashtbl.replace reg_ord n.id i) regs;
  let conv n : node =
    let k = match n.toks with
      | ["logic"; op; w] -> NComb (KLogic (logic_of op, ni w))
      | ["arith"; op; w] -> NComb (KArith (arith_of op, ni w))
      | ["cmp"; op] -> NComb (KCompare (cmp_of op))
      | ["shift"; d; f; w] -> NComb (KShift ((if d = "LEFT" then SH_LEFT else SH_RIGHT),
                                             (match f with "ZERO" -> F_ZERO | "ONE" -> F_ONE | "LAST" -> F_LAST | _ -> F_ROTATE), ni w))
      | "rewire" :: _ :: rest -> NComb (KRewire (ranges rest))
      | ["mux"; nn; w] -> NComb (KMux (ni nn, ni w))
      | ["prio"; nn; w] -> NComb (KPrio (ni nn, ni w))
      | ["const"; v] -> NComb (KConst (bv_of_string v))
      | ["fwd"; k; w] -> NComb (KForward (fwd_of k, ni w))
      | "pin" :: w :: "10" :: _ -> NPinIn (ni w, nat_of_int (Hashtbl.find in_ord n.id))
      | "pin" :: w :: "01" :: _ -> NPinOut (ni w)
      | ["reg"; w; rt; act; rv; _clk] ->
        if rv = "?" then raise (Unsupported "reset value not static");
        NReg ({ rc_width = ni w; rc_reset_value = (if rv = "-" then None else Some (bv_of_string rv));
                rc_reset_type = (match rt with "SYNC" -> RST_SYNC | "ASYNC" -> RST_ASYNC | _ -> RST_NONE);
                rc_reset_active_high = (act = "1") }, nat_of_int (Hashtbl.find reg_ord n.id))
      | "opaque" :: tn :: _ -> raise (Unsupported ("opaque node " ^ tn))
      | t -> failwith ("bad node line: " ^ String.concat " " t) in
    { n_kind = k; n_ins = List.map drv n.drv } in
  let nl = List.rev_map conv !order in
  (nl, List.map nm ins, List.map nm outs)

let input_widths (nl : netlist) =
  List.filter_map (fun n -> match n.n_kind with NPinIn (w, _) -> Some w | _ -> None) nl

(* ---- traces ---- *)
type trace = { tag : string; evs : event list array; stim : bv list array; outs : string list array }

let parse_traces file : trace list =
  let lines = read_lines file in
  let res = ref [] and cur = ref None in
  let evs = ref [] and stim = ref [] and outs = ref [] and pend = ref [] in
  let finish () = match !cur with
    | Some tag -> res := { tag; evs = Array.of_list (List.rev !evs); stim = Array.of_list (List.rev !stim); outs = Array.of_list (List.rev !outs) } :: !res;
      cur := None; evs := []; stim := []; outs := []
    | None -> () in
  List.iter (fun l ->
    match split l with
    | "trace" :: rest -> cur := Some (String.concat " " rest)
    | "ev" :: es -> pend := List.filter_map (function "E" -> Some EvEdge | "R1" -> Some (EvReset true) | "R0" -> Some (EvReset false) | _ -> None) es
    | "cy" :: _ :: "in" :: rest ->
      let rec sp acc = function "out" :: r -> (List.rev acc, r) | x :: r -> sp (x :: acc) r | [] -> (List.rev acc, []) in
      let (i, o) = sp [] rest in
      evs := !pend :: !evs; stim := List.map bv_of_string i :: !stim; outs := o :: !outs
    | ["endtrace"] -> finish ()
    | _ -> ()) lines;
  List.rev !res

let run_tie netfile tracefile =
  match (try Ok (build_netlist (parse_net netfile)) with Unsupported s -> Error s) with
  | Error s -> Printf.printf "TIE %s UNSUPPORTED %s\n" netfile s
  | Ok (nl, _, _) ->
    if not (topo_ok nl) then Printf.printf "TIE %s BADORDER\n" netfile else
    List.iter (fun tr ->
      let st = ref (power_on nl) and prev = ref [] and bad = ref None in
      Array.iteri (fun c evs ->
        st := apply_events nl !prev !st evs;
        let v = comb_eval nl !st tr.stim.(c) in
        let o = List.map string_of_bv (outputs nl v) in
        if o <> tr.outs.(c) && !bad = None then bad := Some (c, o, tr.outs.(c));
        prev := tr.stim.(c)) tr.evs;
      match !bad with
      | None -> Printf.printf "TIE %s ok cycles=%d\n" tr.tag (Array.length tr.evs)
      | Some (c, m, i) -> Printf.printf "TIE %s MISMATCH cycle=%d model=%s impl=%s\n" tr.tag c (String.concat "," m) (String.concat "," i)) (parse_traces tracefile)

(* ---- product reachability ---- *)
let schedule_of (tr : trace) : schedule =
  (* prefix = event lists until they settle to [E] *)
  let n = Array.length tr.evs in
  let last = ref 0 in
  Array.iteri (fun i e -> if e <> [EvEdge] then last := i + 1) tr.evs;
  ignore n;
  { sc_prefix = Array.to_list (Array.sub tr.evs 0 !last); sc_steady = [EvEdge] }

let run_cert mode fa fb tracefile budget =
  let tagp = Printf.sprintf "%s %s" (Filename.basename fa) (Filename.basename fb) in
  match (try Ok (build_netlist (parse_net fa), build_netlist (parse_net fb)) with Unsupported s -> Error s) with
  | Error s -> Printf.printf "CERT %s UNSUPPORTED %s\n" tagp s
  | Ok ((a, ia, oa), (b, ib, ob)) ->
    if ia <> ib || oa <> ob then Printf.printf "CERT %s FAIL pins-differ in:[%s]/[%s] out:[%s]/[%s]\n" tagp (String.concat "," ia) (String.concat "," ib) (String.concat "," oa) (String.concat "," ob)
    else if input_widths a <> input_widths b then Printf.printf "CERT %s FAIL input-widths-differ\n" tagp
    else match parse_traces tracefile with
    | [] -> Printf.printf "CERT %s UNSUPPORTED no-trace\n" tagp
    | tr :: _ ->
      let sc = schedule_of tr in
      let ws = input_widths a in
      let inputs = all_ins ws in
      let ninputs = List.length inputs in
      let m = List.length sc.sc_prefix in
      let evs_at t = if t < m then List.nth sc.sc_prefix t else sc.sc_steady in
      let work = ref 0 in
      let exception Toobig in
      let exception Cex of (pstate * bv list) list in
      (try
        let init = p_init a b sc in
        let parent : (pstate, (pstate * bv list) option) Hashtbl.t = Hashtbl.create 1024 in
        Hashtbl.replace parent init None;
        let rec path s acc = match Hashtbl.find parent s with None -> acc | Some (p, i) -> path p ((p, i) :: acc) in
        let expand evs cur =
          let next = Hashtbl.create 64 in
          List.iter (fun s ->
            List.iter (fun i ->
              incr work; if !work > budget then raise Toobig;
              let (ok, _) = obs mode a b s i in
              if not ok then raise (Cex (path s [] @ [(s, i)]));
              let s' = pnext mode a b evs s i in
              if not (Hashtbl.mem next s') then begin
                Hashtbl.replace next s' ();
                if not (Hashtbl.mem parent s') then Hashtbl.replace parent s' (Some (s, i))
              end) inputs) cur;
          Hashtbl.fold (fun k () acc -> k :: acc) next [] in
        (* exact layers for the prefix cycles *)
        let layers = ref [[init]] in
        for t = 0 to m - 1 do
          let cur = List.hd !layers in
          layers := expand (evs_at (t + 1)) cur :: !layers
        done;
        (* steady closure starting from layer m *)
        let steady = Hashtbl.create 256 in
        let frontier = ref (List.hd !layers) in
        List.iter (fun s -> Hashtbl.replace steady s ()) !frontier;
        while !frontier <> [] do
          let nxt = expand sc.sc_steady !frontier in
          frontier := List.filter (fun s -> not (Hashtbl.mem steady s)) nxt;
          List.iter (fun s -> Hashtbl.replace steady s ()) !frontier
        done;
        let steady_l = Hashtbl.fold (fun k () acc -> k :: acc) steady [] in
        let all_layers = List.rev (steady_l :: List.tl !layers) in
        let nstates = List.fold_left (fun acc l -> acc + List.length l) 0 all_layers in
        (* the verified checker decides *)
        let ok = check_cert mode a b sc ws all_layers in
        Printf.printf "CERT %s %s states=%d inputs=%d prefix=%d evals=%d\n" tagp (if ok then "OK" else "REJECTED") nstates ninputs m !work
      with
      | Toobig -> Printf.printf "CERT %s TOOBIG inputs=%d\n" tagp ninputs
      | Cex p ->
        let stim = List.map (fun (_, i) -> String.concat "," (List.map string_of_bv i)) p in
        let (s, i) = List.nth p (List.length p - 1) in
        let va = comb_eval a s.p1 i and vb = comb_eval b s.p2 i in
        Printf.printf "CERT %s FAIL cycle=%d stimulus=%s outA=%s outB=%s clean=%b\n" tagp (List.length p - 1)
          (String.concat ";" stim)
          (String.concat "," (List.map string_of_bv (outputs a va))) (String.concat "," (List.map string_of_bv (outputs b vb)))
          (snd (obs mode a b s i)))

let rec dispatch = function
  | ["tie"; n; t] -> run_tie n t
  | ["cert"; a; b; t; bud] -> run_cert MRefine a b t (int_of_string bud)
  | ["cert"; m; a; b; t; bud] -> run_cert (match m with "strict" -> MStrict | "compat" -> MCompat | _ -> MRefine) a b t (int_of_string bud)
  | ["batch"; f] -> List.iter (fun l -> (try dispatch (split l) with e -> Printf.printf "ERROR %s : %s\n" l (Printexc.to_string e)); flush stdout) (read_lines f)
  | _ -> prerr_endline "usage: tie|cert|batch"; exit 2

let () = dispatch (List.tl (Array.to_list Sys.argv))
