(* C18 driver: evaluates the extracted word-level model (C18_model, extracted from
   coq/Gatery/BvsDefs.v) on an operation file and prints one canonical result line per
   operation -- the same format the C++ harness harness/C18_bvs.cpp prints for the real
   container.  Only conversions (ints / hex strings <-> extracted nat/N/Z, chars <-> ascii)
   and the line protocol live here; every container operation is the extracted [step]. *)
open C18_model

let rec nat_of_int i = if i <= 0 then O else S (nat_of_int (i - 1))

(* positive from a list of bits, most significant first, leading bit = 1 *)
let pos_of_msb_bits bits =
  match bits with
  | [] -> failwith "pos_of_msb_bits"
  | _ :: rest -> List.fold_left (fun p b -> if b then XI p else XO p) XH rest

let rec strip = function false :: r -> strip r | l -> l

let n_of_msb_bits bits = match strip bits with [] -> N0 | l -> Npos (pos_of_msb_bits l)

let bits_of_hexdigit c =
  let v = match c with
    | '0'..'9' -> Char.code c - 48
    | 'a'..'f' -> Char.code c - 87
    | 'A'..'F' -> Char.code c - 55
    | _ -> failwith ("bad hex digit " ^ String.make 1 c) in
  [v land 8 <> 0; v land 4 <> 0; v land 2 <> 0; v land 1 <> 0]

let n_of_hex s =
  let bits = ref [] in
  String.iter (fun c -> bits := !bits @ bits_of_hexdigit c) s;
  n_of_msb_bits !bits

let n_of_int i =
  let rec bits i acc = if i = 0 then acc else bits (i lsr 1) ((i land 1 = 1) :: acc) in
  n_of_msb_bits (bits i [])

let n_of_tok s = if s = "max" then n_of_hex "ffffffffffffffff" else n_of_int (int_of_string s)

let z_of_hex s =
  if String.length s > 0 && s.[0] = '-' then
    (match n_of_hex (String.sub s 1 (String.length s - 1)) with N0 -> Z0 | Npos p -> Zneg p)
  else (match n_of_hex s with N0 -> Z0 | Npos p -> Zpos p)

(* bits of a positive, least significant first *)
let rec lsb_bits_pos = function
  | XH -> [true]
  | XO p -> false :: lsb_bits_pos p
  | XI p -> true :: lsb_bits_pos p
let lsb_bits_n = function N0 -> [] | Npos p -> lsb_bits_pos p

let rec take k l = if k <= 0 then [] else match l with [] -> [] | x :: r -> x :: take (k - 1) r

let hex_of_lsb_bits bits =
  (* group by 4 from the least significant end *)
  let rec groups l = match l with
    | [] -> []
    | _ ->
      let g = take 4 l in
      let rest = (match l with _ :: _ :: _ :: _ :: r -> r | _ -> []) in
      let v = List.fold_left (fun (acc, w) b -> ((if b then acc + w else acc), w * 2)) (0, 1) g |> fst in
      v :: groups rest in
  let ds = List.rev (groups bits) in
  let rec stripz = function 0 :: (_ :: _ as r) -> stripz r | l -> l in
  let ds = stripz ds in
  if ds = [] then "0" else String.concat "" (List.map (fun v -> Printf.sprintf "%x" v) ds)

let hex_of_n n = hex_of_lsb_bits (lsb_bits_n n)
let hex_of_z = function
  | Z0 -> "0"
  | Zpos p -> hex_of_n (Npos p)
  | Zneg p -> "-" ^ hex_of_n (Npos p)


let rec int_of_pos = function XH -> 1 | XO p -> 2 * int_of_pos p | XI p -> 2 * int_of_pos p + 1
let int_of_n = function N0 -> 0 | Npos p -> int_of_pos p

(* canonical dump: size, then per plane the 64-bit words (bits >= size masked away) *)
let dump (s : bvs) =
  let size = int_of_n s.bsize in
  let plane_str ws =
    let nw = (size + 63) / 64 in
    let rec go k ws acc =
      if k >= nw then List.rev acc
      else
        let w, rest = (match ws with [] -> (N0, []) | w :: r -> (w, r)) in
        let keep = min 64 (size - 64 * k) in
        go (k + 1) rest (hex_of_lsb_bits (take keep (lsb_bits_n w)) :: acc) in
    String.concat "," (go 0 ws []) in
  Printf.sprintf "%d[%s]" size (String.concat "|" (List.map plane_str s.planes))


let bytes_of_hex s =
  if s = "_" then [] else
  List.init (String.length s / 2) (fun k -> n_of_hex (String.sub s (2 * k) 2))
let hex_of_bytes l =
  if l = [] then "_" else String.concat "" (List.map (fun b -> Printf.sprintf "%02x" (int_of_n b)) l)

let ascii_of_char c =
  let v = Char.code c in
  let b i = (v lsr i) land 1 = 1 in
  Ascii (b 0, b 1, b 2, b 3, b 4, b 5, b 6, b 7)
let char_of_ascii (Ascii (b0, b1, b2, b3, b4, b5, b6, b7)) =
  let f b i = if b then 1 lsl i else 0 in
  Char.chr (f b0 0 + f b1 1 + f b2 2 + f b3 3 + f b4 4 + f b5 5 + f b6 6 + f b7 7)
let ascii_list_of_string s = List.init (String.length s) (fun i -> ascii_of_char s.[i])
let string_of_ascii_list l = String.concat "" (List.map (fun a -> String.make 1 (char_of_ascii a)) l)

let () =
  let file = Sys.argv.(1) in
  let ic = open_in file in
  let np = ref 2 and seqid = ref "" and idx = ref 0 in
  let regs = ref [] in
  (* the operations of the current sequence that are constructors of [op] (up to the first text
     operation), to evaluate the theorem's precondition [ops_ok] on exactly what was generated *)
  let seq_ops = ref [] and seq_open = ref true and nregs = ref 0 in
  let out = Buffer.create (1 lsl 16) in
  let flush_out () = print_string (Buffer.contents out); Buffer.clear out in
  let getreg r = List.nth !regs r in
  let setreg r v = regs := List.mapi (fun i x -> if i = r then v else x) !regs in
  let i = int_of_string in
  let nt x = nat_of_int (int_of_string x) in
  let n = n_of_tok in
  let b x = x = "1" in
  (try
    while true do
      let line = input_line ic in
      let toks = String.split_on_char ' ' line |> List.filter (fun s -> s <> "") in
      (match toks with
       | [] -> ()
       | "#" :: _ -> ()
       | ["S"; id; p; r] ->
         seqid := id; idx := 0; np := i p; nregs := i r;
         seq_ops := []; seq_open := true;
         regs := List.init (i r) (fun _ -> mk_empty (nat_of_int !np))
       | ["E"] ->
         let ops = List.rev !seq_ops in
         let ok = ops_ok (nat_of_int !np) (nat_of_int !nregs) ops (List.init !nregs (fun _ -> N0)) in
         prerr_string (Printf.sprintf "OPSOK %s %d %d\n" !seqid (if ok then 1 else 0) (List.length ops));
         Buffer.add_string out (Printf.sprintf "%s:E %s\n" !seqid
                                  (String.concat " " (List.map dump !regs)))
       | name :: args ->
         let target = ref (-1) in
         let obs = ref "-" in
         let run_step o t =
           if !seq_open then seq_ops := o :: !seq_ops;
           let (rs, ob) = step (nat_of_int !np) o !regs in
           regs := rs; target := t;
           (match ob with None -> () | Some z -> obs := hex_of_z z) in
         (match name, args with
          | "resize", [r; x] -> run_step (OResize (nt r, n x)) (i r)
          | "get", [r; p; x] -> run_step (OGet (nt r, nt p, n x)) (-1)
          | "set1", [r; p; x] -> run_step (OSet1 (nt r, nt p, n x)) (i r)
          | "setb", [r; p; x; v] -> run_step (OSetB (nt r, nt p, n x, b v)) (i r)
          | "clear", [r; p; x] -> run_step (OClear (nt r, nt p, n x)) (i r)
          | "toggle", [r; p; x] -> run_step (OToggle (nt r, nt p, n x)) (i r)
          | "setrange", [r; p; o; s; v] -> run_step (OSetRange (nt r, nt p, n o, n s, b v)) (i r)
          | "insw", [r; p; o; s; v] -> run_step (OInsertW (nt r, nt p, n o, n s, n_of_hex v)) (i r)
          | "extw", [r; p; o; s] -> run_step (OExtractW (nt r, nt p, n o, n s)) (-1)
          | "insns", [r; p; o; s; v] -> run_step (OInsertNS (nt r, nt p, n o, n s, n_of_hex v)) (i r)
          | "extns", [r; p; o; s] -> run_step (OExtractNS (nt r, nt p, n o, n s)) (-1)
          | "copy", [rd; d; rs; s; z] -> run_step (OCopyRange (nt rd, n d, nt rs, n s, n z)) (i rd)
          | "cmp", [rd; d; rs; s; z] -> run_step (OCompareRange (nt rd, n d, nt rs, n s, n z)) (-1)
          | "exts", [rd; rs; s; z] -> run_step (OExtractS (nt rd, nt rs, n s, n z)) (i rd)
          | "inss", [rd; rs; o; z] -> run_step (OInsertS (nt rd, nt rs, n o, n z)) (i rd)
          | "append", [rd; rs] -> run_step (OAppend (nt rd, nt rs)) (i rd)
          | "eq", [ra; rb] -> run_step (OEq (nt ra, nt rb)) (-1)
          | "allone", [r; p; s; z] -> run_step (OAllOne (nt r, nt p, n s, n z)) (-1)
          | "allzero", [r; p; s; z] -> run_step (OAllZero (nt r, nt p, n s, n z)) (-1)
          | "anydef", [r; s; z] -> run_step (OAnyDefined (nt r, n s, n z)) (-1)
          | "cmpval", [ra; sa; rb; sb; z] -> run_step (OCompareValues (nt ra, n sa, nt rb, n sb, n z)) (-1)
          | "eqdef", [ra; sa; rb; sb; z] -> run_step (OEqualOnDefined (nt ra, n sa, nt rb, n sb, n z)) (-1)
          | "canrep", [ra; rb; sa; sb; z] -> run_step (OCanBeReplaced (nt ra, nt rb, n sa, n sb, n z)) (-1)
          | "merge", [rd; sd; rs; ss; z] -> run_step (OMerge (nt rd, n sd, nt rs, n ss, n z)) (i rd)
          | "insbig", [r; o; s; v] -> run_step (OInsertBig (nt r, n o, n s, z_of_hex v)) (i r)
          | "extbig", [r; o; s] -> run_step (OExtractBig (nt r, n o, n s)) (-1)
          | "extbigall", [r] -> run_step (OExtractBig (nt r, N0, (getreg (i r)).bsize)) (-1)
          | "alldef", [r; s; z] -> run_step (OAllOne (nt r, S O, n s, n z)) (-1)
          | "assign", [rd; rs] -> run_step (OAssign (nt rd, nt rs)) (i rd)
          | "swap", [ra; rb] -> run_step (OSwap (nt ra, nt rb)) (i ra)
          | "move", [rd; rs] -> run_step (OMove (nt rd, nt rs)) (i rd)
          | "clearresize", [r; x] -> run_step (OClearResize (nt r, n x)) (i r)
          | "head", [r; p] -> run_step (OHead (nt r, nt p)) (-1)
          | "alldefns", [r; s; z] -> run_step (OAllDefNS (nt r, n s, n z)) (-1)
          | "asbytes", [r; p] -> run_step (OAsBytes (nt r, nt p)) (-1)
          | "eqbytes", [r; h] -> run_step (OEqBytes (nt r, bytes_of_hex h)) (-1)
          | "iterread", [r; p; o; s] -> run_step (OIterRead (nt r, nt p, n o, n s)) (-1)
          | "iterwrite", [r; p; o; s; v] -> run_step (OIterWrite (nt r, nt p, n o, n s, n_of_hex v)) (i r)
          | ("parse" | "pbv" | "cdv" | "cdd" | "parsebit"), _ -> seq_open := false
          | ("print" | "fmt" | "fmtr" | "bitneg" | "asdata" | "convext" | "convdef"), _ -> ()
          | _ -> failwith ("bad op line: " ^ line));
         (match name, args with
          | "parse", r :: rest ->
            (* the literal is the rest of the line after "parse r " ('_' stands for the empty string) *)
            let lit = (match rest with [] -> "" | ["_"] -> "" | l -> String.concat " " l) in
            (match parseBitVector (ascii_list_of_string lit) with
             | Some s -> setreg (i r) s; obs := "1"
             | None -> obs := "0");
            target := i r
          | "print", [r; h] ->
            obs := "\"" ^ string_of_ascii_list (printState (b h) (getreg (i r))) ^ "\""
          | "fmt", [r; base; drop] ->
            obs := "\"" ^ string_of_ascii_list (formatState (getreg (i r)) (n base) (b drop)) ^ "\""
          | "fmtr", [r; base; o; s] ->
            obs := "\"" ^ string_of_ascii_list (formatRange (getreg (i r)) (n base) (n o) (n s)) ^ "\""
          | "bitneg", [v; w] -> obs := hex_of_z (bitwiseNegation (z_of_hex v) (n w))
          | "pbv", [r; v; w] -> setreg (i r) (parseBitVectorValue (n_of_hex v) (n w)); target := i r
          | "cdv", [r; w; v] ->
            (match createDefaultValue (n w) (n_of_hex v) with
             | Some s -> setreg (i r) s; obs := "1"
             | None -> obs := "EXC");
            target := i r
          | "cdd", [r; w; h] -> setreg (i r) (createDefaultData (n w) (bytes_of_hex h)); target := i r
          | "parsebit", [r; c] ->
            (match (if c = "true" then Some (parseBitBool true) else if c = "false" then Some (parseBitBool false)
                    else parseBitChar (ascii_of_char c.[0])) with
             | Some s -> setreg (i r) s; obs := "1"
             | None -> obs := "0");
            target := i r
          | "asdata", [r; f] ->
            obs := (match asData (getreg (i r)) (bytes_of_hex f) with Some l -> hex_of_bytes l | None -> "EXC")
          | "convext", [r] -> obs := dump (convertToExtended (getreg (i r)))
          | "convdef", [r] -> obs := (match tryConvertToDefault (getreg (i r)) with Some s -> dump s | None -> "none")
          | ("parse" | "print" | "fmt" | "fmtr" | "bitneg" | "pbv" | "cdv" | "cdd" | "parsebit" | "asdata" | "convext" | "convdef"), _ ->
            failwith ("bad op line: " ^ line)
          | _ -> ());
         Buffer.add_string out
           (Printf.sprintf "%s:%d %s %s %s\n" !seqid !idx name !obs
              (if !target >= 0 then dump (getreg !target) else "-"));
         incr idx);
      if Buffer.length out > (1 lsl 16) then flush_out ()
    done
  with End_of_file -> ());
  flush_out ()
