(* C13 driver around the extracted Coq code (c13_model.ml).
     driver alloc <opsfile>          same line protocol as `C13_names alloc`
     driver check <listfile>         listfile: one line "<case-id> <directory>"; all *.vhd in it
     driver sites <listfile>         prints the declaration sites per case
   Strings are converted between OCaml strings and the extracted inductive `string`. *)
open C13_model

let ascii_of_char (c : char) : ascii =
  let n = Char.code c in
  let b i = (n lsr i) land 1 = 1 in
  Ascii (b 0, b 1, b 2, b 3, b 4, b 5, b 6, b 7)

let char_of_ascii (Ascii (b0, b1, b2, b3, b4, b5, b6, b7)) : char =
  let v b i = if b then 1 lsl i else 0 in
  Char.chr (v b0 0 + v b1 1 + v b2 2 + v b3 3 + v b4 4 + v b5 5 + v b6 6 + v b7 7)

let to_coq (s : Stdlib.String.t) : C13_model.string =
  let r = ref EmptyString in
  for i = Stdlib.String.length s - 1 downto 0 do r := String (ascii_of_char s.[i], !r) done;
  !r

let of_coq (s : C13_model.string) : Stdlib.String.t =
  let b = Buffer.create 16 in
  let rec go = function EmptyString -> () | String (c, r) -> Buffer.add_char b (char_of_ascii c); go r in
  go s; Buffer.contents b

let rec nat_of_int n = if n <= 0 then O else S (nat_of_int (n - 1))
let rec int_of_pos = function XH -> 1 | XO p -> 2 * int_of_pos p | XI p -> 2 * int_of_pos p + 1
let int_of_n = function N0 -> 0 | Npos p -> int_of_pos p

let read_lines f =
  let ic = open_in f in
  let rec go acc = match input_line ic with l -> go (l :: acc) | exception End_of_file -> close_in ic; List.rev acc in
  go []

let read_file f =
  let ic = open_in_bin f in
  let n = in_channel_length ic in
  let s = really_input_string ic n in
  close_in ic; s

let kind_of = function
  | "si" -> KSignal SIG_ENTITY_INPUT | "so" -> KSignal SIG_ENTITY_OUTPUT
  | "ci" -> KSignal SIG_CHILD_ENTITY_INPUT | "co" -> KSignal SIG_CHILD_ENTITY_OUTPUT
  | "ri" -> KSignal SIG_REGISTER_INPUT | "ro" -> KSignal SIG_REGISTER_OUTPUT
  | "sa" -> KSignal SIG_ATTRIBUTED_SIGNAL | "sl" -> KSignal SIG_LOCAL_SIGNAL
  | "sv" -> KSignal SIG_LOCAL_VARIABLE | "sc" -> KSignal SIG_CONSTANT
  | "clk" -> KClock | "rst" -> KReset | "pin" -> KIoPin | "pkg" -> KPackage | "ent" -> KEntity
  | "blk" -> KBlock | "pc" -> KProcess false | "pr" -> KProcess true | "ins" -> KInstance
  | k -> failwith ("bad kind " ^ k)

let words l = List.filter (fun w -> w <> "") (Stdlib.String.split_on_char ' ' l)

let run_alloc opsfile =
  let st = ref init_state in
  List.iter (fun line ->
    match words line with
    | [] -> ()
    | ["N"; p] ->
        let p = int_of_string p in
        let before = List.length !st.st_tree in
        let (st', _) = step !st (OpNew (if p < 0 then None else Some (nat_of_int p))) in
        st := st';
        if List.length st'.st_tree > before then Printf.printf "N %d\n" before else print_string "N -\n"
    | ["A"; s; k; d] ->
        let d = if d = "@" then "" else d in
        let (st', r) = step !st (OpAlloc (nat_of_int (int_of_string s), kind_of k, to_coq d)) in
        st := st';
        (match r with Some n -> Printf.printf "A %s\n" (of_coq n) | None -> print_string "A !\n")
    | _ -> failwith ("bad op line: " ^ line)) (read_lines opsfile)

let show_tok = function
  | TId s -> of_coq s | TKw k -> Stdlib.String.uppercase_ascii (of_coq (kw_name k)) | TNum s -> of_coq s
  | TStr s -> "\"" ^ of_coq s ^ "\"" | TChr c -> Printf.sprintf "'%c'" (char_of_ascii c)
  | TSym y -> of_coq (sym_name y) | TBad c -> Printf.sprintf "<BAD %d>" (Char.code (char_of_ascii c))

(* compile order: the files listed in the generated project script (project.txt, section before
   "# testbench files:") first, in that order; files the script does not mention follow alphabetically *)
let vhd_files dir =
  let fs = Array.to_list (Sys.readdir dir) in
  let fs = List.sort compare (List.filter (fun f -> Filename.check_suffix f ".vhd") fs) in
  let script = Filename.concat dir "project.txt" in
  let listed =
    if Sys.file_exists script then begin
      let rec take acc = function
        | [] -> List.rev acc
        | l :: r ->
            let l = Stdlib.String.trim l in
            if l = "# testbench files:" then List.rev acc
            else if l = "" || l.[0] = '#' then take acc r
            else take (l :: acc) r in
      List.filter (fun f -> List.mem f fs) (take [] (read_lines script))
    end else [] in
  let listed = List.fold_left (fun acc f -> if List.mem f acc then acc else acc @ [f]) [] listed in
  let rest = List.filter (fun f -> not (List.mem f listed)) fs in
  List.map (fun f -> Filename.concat dir f) (listed @ rest)

let cases listfile =
  List.filter_map (fun l -> match words l with [id; dir] -> Some (id, dir) | _ -> None) (read_lines listfile)

let run_check listfile =
  List.iter (fun (id, dir) ->
    let files = List.map (fun f -> to_coq (read_file f)) (vhd_files dir) in
    (match check_design files with
     | Ok s ->
         Printf.printf "%s OK decls=%d regions=%d uses=%d assign=%d widthchk=%d varreads=%d insts=%d unknown=%d hides=%s\n"
           id (int_of_n s.sm_decls) (int_of_n s.sm_regions) (int_of_n s.sm_uses) (int_of_n s.sm_assign)
           (int_of_n s.sm_widthchk) (int_of_n s.sm_varreads) (int_of_n s.sm_insts) (int_of_n s.sm_insts_unknown)
           (Stdlib.String.concat "," (List.map of_coq s.sm_hides))
     | Err (code, ctx) ->
         Printf.printf "%s ERR %s | %s\n" id (of_coq code) (Stdlib.String.concat " " (List.map show_tok ctx)));
    Stdlib.flush Stdlib.stdout) (cases listfile)

let run_sites listfile =
  List.iter (fun (id, dir) ->
    List.iter (fun f ->
      let toks = lex (to_coq (read_file f)) in
      match decl_sites None toks with
      | Some l -> Printf.printf "%s %s : %s\n" id (Filename.basename f) (Stdlib.String.concat " " (List.map of_coq l))
      | None -> Printf.printf "%s %s : <reserved word at declaration site>\n" id (Filename.basename f))
      (vhd_files dir)) (cases listfile)

let () =
  match Array.to_list Sys.argv with
  | [_; "alloc"; f] -> run_alloc f
  | [_; "check"; f] -> run_check f
  | [_; "sites"; f] -> run_sites f
  | [_; "lexdump"; f] ->
      List.iter (fun t -> print_string (show_tok t); print_char ' ') (lex (to_coq (read_file f))); print_newline ()
  | _ -> prerr_endline "usage: driver alloc <ops> | check <list> | sites <list>"; exit 2
