(* C19 driver: runs the extracted Coq model of the simulator's process scheduling (C19_model =
   SimProcDefs.v) on the case file the C++ harness consumed and prints the same canonical lines.
     driver <coro|fiber> <casefile> [tb-bits]
   tb-bits: string of 0/1, the stream that decides ties between equivalent clockPinTrigger events
   (see SimProcDefs.pop_event); default empty = insertion order.  A line "tb <bits>" inside a case
   overrides it for that case.  After every case a line "Q <ties> <oof>" reports how many tie bits the run
   consumed and whether any loop ran out of fuel.
   All times are exact rationals (extracted Q over binary integers); nothing here uses floats. *)
open C19_model

let rec nat_of_int (i : int) : nat = if i <= 0 then O else S (nat_of_int (i - 1))
let rec int_of_nat (n : nat) : int = match n with O -> 0 | S m -> 1 + int_of_nat m
let rec pos_of_int (i : int) : positive =
  if i <= 1 then XH else if i land 1 = 1 then XI (pos_of_int (i lsr 1)) else XO (pos_of_int (i lsr 1))
let n_of_int (i : int) : n = if i = 0 then N0 else Npos (pos_of_int i)
let z_of_int (i : int) : z = if i = 0 then Z0 else if i > 0 then Zpos (pos_of_int i) else Zneg (pos_of_int (-i))
let rec int_of_pos (p : positive) : int =
  let chk v = if v < 0 || v > (max_int lsr 2) then failwith "number too large for the printer" else v in
  match p with XH -> 1 | XO q -> 2 * chk (int_of_pos q) | XI q -> 2 * chk (int_of_pos q) + 1
let int_of_n (x : n) : int = match x with N0 -> 0 | Npos p -> int_of_pos p
let int_of_z (x : z) : int = match x with Z0 -> 0 | Zpos p -> int_of_pos p | Zneg p -> - (int_of_pos p)

let q_of_string (s : string) : q =
  match String.index_opt s '/' with
  | None -> failwith ("bad rational " ^ s)
  | Some i ->
    let a = int_of_string (String.sub s 0 i) and b = int_of_string (String.sub s (i + 1) (String.length s - i - 1)) in
    if b <= 0 then failwith "bad denominator";
    { qnum = z_of_int a; qden = pos_of_int b }
let uq_of_string (s : string) : n * positive =
  match String.index_opt s '/' with
  | None -> failwith ("bad rational " ^ s)
  | Some i ->
    let a = int_of_string (String.sub s 0 i) and b = int_of_string (String.sub s (i + 1) (String.length s - i - 1)) in
    if b <= 0 || a < 0 then failwith "bad unsigned rational";
    (n_of_int a, pos_of_int b)
let pq_of_string (s : string) : positive * positive =
  let (a, b) = uq_of_string s in
  (match a with N0 -> failwith "frequency must be positive" | Npos p -> (p, b))
let rec gcd a b = if b = 0 then a else gcd b (a mod b)
(* reduced fraction, like boost::rational prints it *)
let string_of_q (x : q) : string =
  let a = int_of_z x.qnum and b = int_of_pos x.qden in
  let g = gcd (abs a) b in let g = if g = 0 then 1 else g in
  Printf.sprintf "%d/%d" (a / g) (b / g)
(* exactly as written in the case file *)
let raw_of_q (x : q) : string = Printf.sprintf "%d/%d" (int_of_z x.qnum) (int_of_pos x.qden)

let sig_of_int = function 0 -> SRA | 1 -> SRA2 | 2 -> SRB | 3 -> SC | 4 -> SPA | 5 -> SZ | 6 -> SCLO | 7 -> SCHI | _ -> failwith "bad signal"
let int_of_sig = function SRA -> 0 | SRA2 -> 1 | SRB -> 2 | SC -> 3 | SPA -> 4 | SZ -> 5 | SCLO -> 6 | SCHI -> 7
let mask_of_int m = List.filter_map (fun i -> if m land (1 lsl i) <> 0 then Some (sig_of_int i) else None) [0; 1; 2; 3]
let int_of_mask l = List.fold_left (fun a s -> a lor (1 lsl int_of_sig s)) 0 l
let clk_of_char = function '0' -> CA | '1' -> CB | _ -> failwith "bad clock"
let char_of_clk = function CA -> '0' | CB -> '1'
let phase_of_char = function 'B' -> BEFORE | 'D' -> DURING | 'A' -> AFTER | _ -> failwith "bad phase"
let char_of_phase = function BEFORE -> 'B' | DURING -> 'D' | AFTER -> 'A'

let parse_step (t : string) : step =
  let rest = String.sub t 1 (String.length t - 1) in
  match t.[0] with
  | 'K' -> if t.[1] >= '2' then SWaitX (nat_of_int (Char.code t.[1] - Char.code '2'), phase_of_char t.[2])
           else SWaitClk (clk_of_char t.[1], phase_of_char t.[2])
  | 'T' -> SWaitFor (uq_of_string rest)
  | 'H' -> SWaitChange (if rest = "-" then [] else List.map (fun x -> sig_of_int (int_of_string x)) (String.split_on_char '.' rest))
  | 'S' -> SWaitStable
  | 'R' -> SRead (sig_of_int (int_of_string rest))
  | 'W' ->
    let e = String.index rest '=' in
    let p = int_of_string (String.sub rest 0 e) and v = int_of_string (String.sub rest (e + 1) (String.length rest - e - 1)) in
    SWrite ((if p = 0 then PA else PB), n_of_int v)
  | 'F' -> SFork (nat_of_int (int_of_string rest))
  | 'J' -> SJoin (nat_of_int (int_of_string rest))
  | _ -> failwith ("bad step " ^ t)

let string_of_wake = function
  | WkClk (c, ph) -> Printf.sprintf "K%c%c" (char_of_clk c) (char_of_phase ph)
  | WkFor (n, d) -> Printf.sprintf "T%d/%d" (int_of_n n) (int_of_pos d)
  | WkChange m -> if m = [] then "H-" else "H" ^ String.concat "." (List.map (fun x -> string_of_int (int_of_sig x)) m)
  | WkX (i, ph) -> Printf.sprintf "K%d%c" (int_of_nat i + 2) (char_of_phase ph)
  | WkStable -> "S"
  | WkJoin k -> Printf.sprintf "J%d" (int_of_nat k)
let string_of_val = function None -> "X" | Some v -> string_of_int (int_of_n v)

let string_of_action = function
  | AStart -> "start" | AEnd -> "end"
  | ASusp (w, _) -> "susp " ^ string_of_wake w
  | AWake (w, _) -> "wake " ^ string_of_wake w
  | AWatch vs -> String.concat " " ("V" :: List.map string_of_val vs)
  | ARead (s, v) -> Printf.sprintf "R%d=%s" (int_of_sig s) (string_of_val v)
  | AWrite (p, v) -> Printf.sprintf "W%d=%d" (match p with PA -> 0 | PB -> 1) (int_of_n v)
  | AFork (sid, cp) -> Printf.sprintf "F%d:%d" (int_of_nat sid) (int_of_nat cp)
  | AJoinSkip k -> Printf.sprintf "J%d:skip" (int_of_nat k)
  | AJoinDone k -> Printf.sprintf "J%d:done" (int_of_nat k)
  | AJoinWait k -> Printf.sprintf "J%d:wait" (int_of_nat k)

let print_entry (two : bool) (e : entry) : unit =
  match e with
  | LProc (t, ph, mt, ro, pid, a) ->
    Printf.printf "L %s %c %d %d p%d %s\n" (string_of_q t) (char_of_phase ph) (int_of_n mt) (if ro then 1 else 0) (int_of_nat pid) (string_of_action a)
  | LEdge (t, c, r, ra, ra2, rb) ->
    (* only the registers of the clock's own domain *)
    let inA = (c = CA) and inB = (if two then c = CB else c = CA) in
    Printf.printf "E %s %c %c %s %s %s\n" (string_of_q t) (char_of_clk c) (if r then 'r' else 'f')
      (if inA then string_of_val ra else "-") (if inA then string_of_val ra2 else "-") (if inB then string_of_val rb else "-")
  | LPhase (t, ph) -> Printf.printf "P %s %c\n" (string_of_q t) (char_of_phase ph)
  | LMicro (t, ph, mt) -> Printf.printf "M %s %c %d\n" (string_of_q t) (char_of_phase ph) (int_of_n mt)
  | LCommit (t, ra, ra2, rb, c) ->
    Printf.printf "C %s %s %s %s %s\n" (string_of_q t) (string_of_val ra) (string_of_val ra2) (string_of_val rb) (string_of_val c)
  | LErr -> print_string "X readonly\n"
  | LReeval | LTrigger _ | LFire _ -> ()

let split s = List.filter (fun x -> x <> "") (String.split_on_char ' ' s)
let bits_of_string s = List.init (String.length s) (fun i -> s.[i] = '1')

let () =
  let fiber = Sys.argv.(1) = "fiber" in
  let default_tb = if Array.length Sys.argv > 3 then Sys.argv.(3) else "" in
  let ic = open_in Sys.argv.(2) in
  let fuel = nat_of_int 20000 in
  let id = ref "" and fa = ref (pq_of_string "1/1") and fb = ref (pq_of_string "1/1") and two = ref false
  and procs = ref [] and subs = ref [] and extra = ref [] and until = ref (q_of_string "0/1") and tb = ref default_tb in
  (try
    while true do
      let line = input_line ic in
      match split line with
      | "case" :: i :: _ -> id := i; procs := []; subs := []; extra := []; two := false; tb := default_tb
      | "clk" :: a :: b :: _ -> fa := pq_of_string a; two := (b <> "-"); if !two then fb := pq_of_string b
      | "x" :: f :: _ -> extra := XRoot (pq_of_string f) :: !extra
      | "y" :: p :: m :: _ -> extra := XDerived ((if p = "1" then CB else CA), pq_of_string m) :: !extra
      | "p" :: toks -> procs := List.map parse_step toks :: !procs
      | "s" :: toks -> subs := List.map parse_step toks :: !subs
      | "tb" :: b :: _ -> tb := b
      | "until" :: u :: _ -> until := q_of_string u
      | "end" :: _ ->
        Printf.printf "case %s\n" !id;
        let cfg = { c_two = !two; c_fa = !fa; c_fb = !fb; c_subs = List.rev !subs; c_extra = List.rev !extra } in
        let r = simulate cfg (List.rev !procs) fiber !until (bits_of_string !tb) fuel in
        List.iter (print_entry !two) r.res_log;
        Printf.printf "Q %d %d\nend\n" (int_of_n r.res_ties) (if r.res_oof then 1 else 0)
      | _ -> ()
    done
  with End_of_file -> ())
