(* C12 driver: reads the dump written by harness/C12_cdc.cpp and runs the extracted Coq model
   (C12_model) on it.

   For every "dump <design> <phase>" block it prints
     CHK <design> <phase> wf=.. rel=.. pin=.. domok=.. infer=.. closed=.. sinks=.. [detail]
     RES <design> <phase> flagged=<i,j,..> crossing=<0|1>
   wf      : extracted wf on the netlist and clocks_ok on the clock table (parents listed first)
   rel     : the model's relation (getOutputClockRelation) equals the dumped real relation of every output
   pin     : the model's pin_source equals the dumped real getClockPinSource of every clock
   domok   : extracted domains_ok on the REAL inferred map
   infer   : the transcribed worklist (C++ pop order) reproduces the REAL map entry by entry
   closed  : the influence sets computed by infl_fix are closed (so they are exactly `influences`)
   sinks   : extracted sinks_clocked: every register / pin / memory port with a connected input has a clock
   flagged : the model's flag rule evaluated on the REAL map
   crossing: the specification verdict has_crossing_b on the influence sets *)
open C12_model

let rec nat_of_int i = if i <= 0 then O else S (nat_of_int (i - 1))
let rec int_of_nat = function O -> 0 | S k -> 1 + int_of_nat k
let rec pos_of_int i = if i <= 1 then XH else if i land 1 = 0 then XO (pos_of_int (i lsr 1)) else XI (pos_of_int (i lsr 1))
let n_of_int i = if i <= 0 then N0 else Npos (pos_of_int i)
let rec int_of_pos = function XH -> 1 | XO p -> 2 * int_of_pos p | XI p -> 2 * int_of_pos p + 1
let int_of_n = function N0 -> 0 | Npos p -> int_of_pos p

let split_on c s = String.split_on_char c s
let field l key =
  (* "key=value" among the tokens *)
  let pre = key ^ "=" in
  let pl = String.length pre in
  let rec go = function
    | [] -> failwith ("missing field " ^ key)
    | t :: r -> if String.length t >= pl && String.sub t 0 pl = pre then String.sub t pl (String.length t - pl) else go r
  in go l

let opt_clock s = if s = "-" then None else Some (nat_of_int (int_of_string s))
let list_field s = if s = "" then [] else split_on ',' s

type blk = {
  mutable design : string; mutable phase : string;
  mutable bclocks : (clock * int) list;           (* reversed; with real pin source *)
  mutable bnodes : node list;                     (* reversed *)
  mutable brels : ((int * int) * (string * string)) list;
  mutable bdoms : ((int * int) * string) list;
  mutable bflag : int list option;
  mutable berr : string list;
}

let kind_of = function
  | "cdc" -> KCdc | "memport" -> KMemPort | "sig2clk" -> KSig2Clk | "sig2rst" -> KSig2Rst
  | "reg" -> KReg | "pin" -> KPin | "ext" -> KExt | _ -> KOther

let parse_port s =
  match split_on '.' s with
  | [a; b] -> Some (n_of_int (int_of_string a), n_of_int (int_of_string b))
  | _ -> failwith ("bad port " ^ s)

let str_scd = function
  | None -> "N" | Some SUnknown -> "U" | Some SConst -> "K" | Some (SClock c) -> "C" ^ string_of_int (int_of_nat c)

let scd_of_str s =
  if s = "N" then None else if s = "U" then Some SUnknown else if s = "K" then Some SConst
  else Some (SClock (nat_of_int (int_of_string (String.sub s 1 (String.length s - 1)))))

let b2s b = if b then "1" else "0"

let finish (b : blk) =
  let clocks = List.rev b.bclocks in
  let n = { nodes = List.rev b.bnodes; clks = List.map fst clocks } in
  let detail = ref [] in
  let note s = if List.length !detail < 3 then detail := s :: !detail in
  List.iter note b.berr;
  let wf_ok = wf n && clocks_ok n.clks in
  (* pin sources *)
  let pin_ok = ref true in
  List.iteri (fun i (_, real) ->
      let m = int_of_nat (pin_source n (nat_of_int i)) in
      if m <> real then (pin_ok := false; note (Printf.sprintf "pin_source(%d):model=%d,real=%d" i m real))) clocks;
  (* relations *)
  let rel_ok = ref true in
  let nodes_arr = Array.of_list n.nodes in
  List.iter (fun ((v, o), (deps, cks)) ->
      let (d, c) = relation nodes_arr.(v) (n_of_int o) in
      let ds = String.concat "," (List.map (fun x -> string_of_int (int_of_nat x)) d) in
      let cs = String.concat "," (List.map (function None -> "-" | Some k -> string_of_int (int_of_nat k)) c) in
      if ds <> deps || cs <> cks then (rel_ok := false;
        note (Printf.sprintf "relation(%d.%d):model=%s|%s,real=%s|%s" v o ds cs deps cks))) b.brels;
  (* the real map *)
  let realmap = List.fold_left (fun m ((v, o), s) ->
      match scd_of_str s with None -> m | Some x -> pm_set m (n_of_int v, n_of_int o) x) pm_empty b.bdoms in
  let dom p = pm_get realmap p in
  let outs = all_outputs n in
  if List.length outs <> List.length b.bdoms then note (Printf.sprintf "outputs:model=%d,dump=%d" (List.length outs) (List.length b.bdoms));
  let dom_ok = domains_ok n dom in
  if not dom_ok then
    List.iter (fun p -> if not (out_ok n dom p) then
                  note (Printf.sprintf "out_ok_fails(%d.%d=%s)" (int_of_n (fst p)) (int_of_n (snd p)) (str_scd (dom p)))) outs;
  (* the transcribed worklist in the C++ order *)
  let st = infer_state n (choose_min n) outs in
  let infer_ok = ref (st.wretry = []) in
  List.iter (fun p ->
      let m = pm_get st.wdom p in
      if str_scd m <> str_scd (dom p) then (infer_ok := false;
        note (Printf.sprintf "infer(%d.%d):model=%s,real=%s" (int_of_n (fst p)) (int_of_n (snd p)) (str_scd m) (str_scd (dom p))))) outs;
  (* flag rule on the real map *)
  let fl = List.map int_of_n (flagged n dom) in
  (* specification *)
  let sets = infl_fix n (S (length outs)) pm_empty in
  let s_fun p = pm_list sets p in
  let closed = infl_closed n s_fun in
  let crossing = has_crossing_b n s_fun in
  Printf.printf "CHK %s %s wf=%s rel=%s pin=%s domok=%s infer=%s closed=%s sinks=%s%s\n" b.design b.phase
    (b2s wf_ok) (b2s !rel_ok) (b2s !pin_ok) (b2s dom_ok) (b2s !infer_ok) (b2s closed) (b2s (sinks_clocked n))
    (if !detail = [] then "" else " " ^ String.concat ";" (List.rev !detail));
  Printf.printf "RES %s %s flagged=%s crossing=%s\n" b.design b.phase
    (String.concat "," (List.map string_of_int fl)) (b2s crossing)

let () =
  let ic = open_in Sys.argv.(1) in
  let cur = ref None in
  (try
     while true do
       let line = input_line ic in
       let t = List.filter (fun s -> s <> "") (split_on ' ' line) in
       match t with
       | "dump" :: d :: ph :: _ ->
           cur := Some { design = d; phase = ph; bclocks = []; bnodes = []; brels = []; bdoms = []; bflag = None; berr = [] }
       | "clock" :: _ :: rest ->
           (match !cur with Some b ->
              let par = field rest "parent" in
              let c = { cparent = opt_clock par; cselfsim = (field rest "selfsim" = "1"); cselfexp = (field rest "selfexp" = "1");
                        cname = n_of_int (int_of_string (field rest "name"));
                        cfnum = n_of_int (int_of_string (field rest "fnum"));
                        cfden = n_of_int (int_of_string (field rest "fden"));
                        cphase = (field rest "phase" = "1") } in
              let ps = field rest "pinsrc" in
              b.bclocks <- (c, (if ps = "-" || ps = "?" then -1 else int_of_string ps)) :: b.bclocks
            | None -> ())
       | "node" :: _ :: rest ->
           (match !cur with Some b ->
              let ins = List.map (fun s -> if s = "-" then None else if s = "?" then (b.berr <- "dangling-driver" :: b.berr; None) else parse_port s)
                  (list_field (field rest "ins")) in
              let cl = List.map (fun s -> if s = "?" then (b.berr <- "foreign-clock" :: b.berr; None) else opt_clock s) (list_field (field rest "clocks")) in
              let nd = { nkind = kind_of (field rest "kind"); nid = n_of_int (int_of_string (field rest "id"));
                         nins = ins; nouts = nat_of_int (int_of_string (field rest "nout")); nclocks = cl;
                         ninclk = List.map (fun s -> if s = "?" then (b.berr <- "foreign-clock" :: b.berr; None) else opt_clock s) (list_field (field rest "inclk"));
                         noutclk = List.map (fun s -> if s = "?" then (b.berr <- "ext-output-relation-not-a-single-clock" :: b.berr; None) else opt_clock s) (list_field (field rest "outclk")) } in
              b.bnodes <- nd :: b.bnodes
            | None -> ())
       | "rel" :: v :: o :: rest ->
           (match !cur with Some b ->
              b.brels <- ((int_of_string v, int_of_string o), (field rest "deps", field rest "clks")) :: b.brels
            | None -> ())
       | "dom" :: v :: o :: s :: _ ->
           (match !cur with Some b -> b.bdoms <- ((int_of_string v, int_of_string o), s) :: b.bdoms | None -> ())
       | "infererror" :: _ | "detecterror" :: _ ->
           (match !cur with Some b -> b.berr <- List.hd t :: b.berr | None -> ())
       | "domextra" :: k :: _ ->
           (match !cur with Some b -> if k <> "0" then b.berr <- "domextra" :: b.berr | None -> ())
       | "enddump" :: _ ->
           (match !cur with Some b -> finish b; cur := None | None -> ())
       | _ -> ()
     done
   with End_of_file -> ());
  close_in ic
