(* C16 driver: runs the extracted stream-stage machines (StreamDefs.v, same composition as the C++
   harness built from the real scl stages) on the per-cycle inputs recorded by the harness and prints
   the same canonical lines with the model's own outputs.

   input lines (what follows '|' is the implementation's output and is ignored here):
     C <id> ... chain=<s1,s2,...> ...          start a case
     E <valid_in> <d0.d1...> <eop_in> <meta_in> <ready_out> <stall bits|-> | ...
     X ...                                      echoed
   output: "C ..." echoed; per E line the same left part followed by
     | <ready_in> <valid_out> <payload_out> <eop_out> <meta_out>      ('-' while valid_out = 0)
   Cases whose chain contains a stage without Coq machine (ff / fz = strm::fifo) and cases with eb=1
   (EmptyBits meta) are echoed unchanged with the header marked "nomodel".
   px<r> / pr<r> / pm<t> are Packet.h widthExtend / widthReduce / matchWidth (DPExtend m r, DPReduce r, matchD m t).
   usage: driver <in> <out> *)
open C16_model

let rec pos_of_int n = if n = 1 then XH else if n land 1 = 0 then XO (pos_of_int (n lsr 1)) else XI (pos_of_int (n lsr 1))
let n_of_int n = if n = 0 then N0 else Npos (pos_of_int n)
let rec int_of_pos = function XH -> 1 | XO p -> 2 * int_of_pos p | XI p -> 2 * int_of_pos p + 1
let int_of_n = function N0 -> 0 | Npos p -> int_of_pos p
let rec nat_of_int n = if n <= 0 then O else S (nat_of_int (n - 1))

let b2s b = if b then "1" else "0"
let kv tok = match String.index_opt tok '=' with
  | Some i -> Some (String.sub tok 0 i, String.sub tok (i + 1) (String.length tok - i - 1))
  | None -> None

let digits_of_string s = List.map (fun x -> n_of_int (int_of_string x)) (String.split_on_char '.' s)
let xd = 4294967295
let string_of_digits l = String.concat "." (List.map (fun x -> let v = int_of_n x in if v = xd then "X" else string_of_int v) l)

exception NoModel

(* digits: number of digits of a beat at this point of the chain (the harness tracks it the same way) *)
let stage_of_token digits t =
  let kind = String.sub t 0 2 in
  let arg = if String.length t > 2 then int_of_string (String.sub t 2 (String.length t - 2)) else 0 in
  let m = !digits in
  match kind with
  | "rd" -> DRegDown | "rb" -> DRegBlock | "rr" -> DRegReady | "dc" -> DRegDecouple
  | "dl" -> DDelay (nat_of_int arg) | "st" -> DStall (nat_of_int arg)
  | "ex" -> digits := m * arg; DExtend (nat_of_int arg)
  | "re" -> digits := m / (max 1 arg); DReduce (nat_of_int arg)
  | "px" -> digits := m * arg; DPExtend (nat_of_int m, nat_of_int arg)
  | "pr" -> digits := m / (max 1 arg); DPReduce (nat_of_int arg)
  | "pm" -> digits := arg; matchD (nat_of_int m) (nat_of_int arg)
  | _ -> raise NoModel

(* be=1 (stream with ByteEnable and Error): a model digit is the pair (byte, its enable bit) encoded as
   byte + 256 * enable, the model meta word is txid + 8 * error; the machines never look inside a digit or
   a meta word, so this is the statement "enables and error travel with their byte / beat" *)
let be_mode = ref false
(* sig=rs|s: streams without Valid; the E lines carry SOP in the first field, the model derives valid (StreamRs.v: rsRun)
   and the output sop is the framing of the model's own output transfers (first beat after an eop beat / reset) *)
let rs_mode = ref false
let rs_lines : (string * rscyc) list ref = ref []

let flush_case oc desc lines =
  (* lines: reversed list of (lhs, cyc) *)
  let lines = List.rev lines in
  match desc with
  | None -> ()
  | Some d ->
    let evs = runChain d (List.map snd lines) in
    List.iter2 (fun (lhs, _) e ->
        if e.e_out.bvalid then begin
          if !be_mode then begin
            let vs = List.map int_of_n e.e_out.bdata in
            let ds = String.concat "." (List.map (fun v -> if v = xd then "X" else string_of_int (v land 255)) vs) in
            let bs = String.concat "" (List.map (fun v -> if v = xd then "X" else if v lsr 8 <> 0 then "1" else "0") vs) in
            let m = int_of_n e.e_out.bmeta in
            Printf.fprintf oc "%s | %s 1 %s %s %d %s %d\n" lhs (b2s e.e_rin) ds (b2s e.e_out.beop) (m land 7) bs (m lsr 3)
          end else
          Printf.fprintf oc "%s | %s 1 %s %s %d\n" lhs (b2s e.e_rin) (string_of_digits e.e_out.bdata)
            (b2s e.e_out.beop) (int_of_n e.e_out.bmeta)
        end
        else Printf.fprintf oc "%s | %s 0 %s\n" lhs (b2s e.e_rin) (if !be_mode then "- - - - -" else "- - -")) lines evs

let flush_rs oc desc =
  let lines = List.rev !rs_lines in
  rs_lines := [];
  match desc with
  | None -> ()
  | Some d ->
    let evs = rsRun d (List.map snd lines) in
    let first = ref true in
    List.iter2 (fun (lhs, _) e ->
        if e.e_out.bvalid then begin
          Printf.fprintf oc "%s | %s 1 %s %s %d %s\n" lhs (b2s e.e_rin) (string_of_digits e.e_out.bdata)
            (b2s e.e_out.beop) (int_of_n e.e_out.bmeta) (b2s !first);
          if e.e_rout then first := e.e_out.beop
        end else Printf.fprintf oc "%s | %s 0 - - - -\n" lhs (b2s e.e_rin)) lines evs

let () =
  let ic = open_in Sys.argv.(1) and oc = open_out Sys.argv.(2) in
  let desc = ref None and lines = ref [] and nomodel = ref false in
  let finish () = (if !rs_mode then flush_rs oc !desc else flush_case oc !desc !lines); desc := None; lines := [] in
  (try
     while true do
       let line = input_line ic in
       let lhs = match String.index_opt line '|' with Some i -> String.trim (String.sub line 0 i) | None -> String.trim line in
       let toks = List.filter (fun s -> s <> "") (String.split_on_char ' ' lhs) in
       match toks with
       | "C" :: _id :: rest ->
         finish ();
         let chain = ref "-" and digits = ref 1 and eb = ref false in
         be_mode := false; rs_mode := false;
         List.iter (fun t -> match kv t with Some ("sig", v) -> rs_mode := (v = "rs" || v = "s") | _ -> ()) rest;
         List.iter (fun t -> match kv t with Some ("chain", v) -> chain := v | Some ("min", v) -> digits := int_of_string v
                                            | Some ("eb", v) -> eb := (v = "1") | Some ("be", v) -> be_mode := (v = "1") | _ -> ()) rest;
         (try
            if !eb then raise NoModel;   (* streams with EmptyBits: no Coq machine, list oracle only *)
            let l = if !chain = "-" then [] else List.map (stage_of_token digits) (String.split_on_char ',' !chain) in
            desc := Some (chainOf l); nomodel := false;
            output_string oc (line ^ "\n")
          with NoModel -> desc := None; nomodel := true; output_string oc (line ^ " nomodel\n"))
       | "E" :: _ when !nomodel -> output_string oc (line ^ "\n")
       | [ "E"; v; d; e; m; r; ctl; be; err ] when !be_mode ->
         let ctlbits = if ctl = "-" then [] else List.init (String.length ctl) (fun i -> ctl.[i] = '1') in
         let ds = List.map int_of_string (String.split_on_char '.' d) in
         let syms = List.mapi (fun i x -> n_of_int (x + (if i < String.length be && be.[i] = '1' then 256 else 0))) ds in
         let c = { c_ctl = ctlbits;
                   c_in = { bvalid = (v = "1"); bdata = syms; beop = (e = "1"); bmeta = n_of_int (int_of_string m + 8 * int_of_string err) };
                   c_rdy = (r = "1") } in
         lines := (lhs, c) :: !lines
       | [ "E"; v; d; e; m; r; _ctl ] when !rs_mode && not !nomodel ->
         let c = { r_ctl = []; r_sop = (v = "1"); r_data = digits_of_string d; r_eop = (e = "1");
                   r_meta = n_of_int (int_of_string m); r_rdy = (r = "1") } in
         rs_lines := (lhs, c) :: !rs_lines
       | [ "E"; v; d; e; m; r; ctl ] ->
         if !nomodel then output_string oc (line ^ "\n")
         else begin
           let ctlbits = if ctl = "-" then [] else List.init (String.length ctl) (fun i -> ctl.[i] = '1') in
           let c = { c_ctl = ctlbits;
                     c_in = { bvalid = (v = "1"); bdata = digits_of_string d; beop = (e = "1"); bmeta = n_of_int (int_of_string m) };
                     c_rdy = (r = "1") } in
           lines := (lhs, c) :: !lines
         end
       | "X" :: _ -> finish (); output_string oc (line ^ "\n")
       | [] -> ()
       | _ -> output_string oc (lhs ^ " | ?\n")
     done
   with End_of_file -> ());
  finish ();
  close_in ic; close_out oc
