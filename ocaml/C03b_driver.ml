(* Driver around the extracted frontend-operator model (coq/extract/Extract_C03b.v, fe_apply).
   usage: driver <casefile> <outfile>
   Reads the same case file as harness/C03_expr.cpp (language documented in checks/C03b.py) and
   prints, per case,
       <idx> R <nodeIdx>                  the model says node <nodeIdx> is rejected by the frontend
       <idx> V <vecIdx> <val> <val> ...   one value per DAG node:  <T><P>:<bits>
   exactly like the harness (which additionally prints a message after "R j" and the C lines). *)
open C03b_model

let rec nat_of_int n = if n <= 0 then O else S (nat_of_int (n - 1))

let words s = List.filter (fun t -> t <> "") (String.split_on_char ' ' s)

(* decimal string -> positive/N/Z of the extraction, any size *)
let n_of_decimal (s : string) : n =
  (* repeated division of the decimal digit array by 2, collecting bits LSB first *)
  let digits = Array.init (String.length s) (fun i ->
      let c = s.[i] in if c < '0' || c > '9' then failwith ("bad number " ^ s) else Char.code c - 48) in
  let is_zero () = Array.for_all (fun d -> d = 0) digits in
  let bits = ref [] in
  while not (is_zero ()) do
    let carry = ref 0 in
    Array.iteri (fun i d -> let cur = !carry * 10 + d in digits.(i) <- cur / 2; carry := cur mod 2) digits;
    bits := (!carry = 1) :: !bits            (* collected LSB first, so the list ends up MSB first *)
  done;
  match !bits with
  | [] -> N0
  | _ :: rest ->                              (* head is the leading 1 *)
    Npos (List.fold_left (fun acc b -> if b then XI acc else XO acc) XH rest)

let z_of_decimal (s : string) : z =
  if String.length s > 0 && s.[0] = '-' then
    (match n_of_decimal (String.sub s 1 (String.length s - 1)) with N0 -> Z0 | Npos p -> Zneg p)
  else (match n_of_decimal s with N0 -> Z0 | Npos p -> Zpos p)

let bv_of_string (s : string) : bv =
  if s = "-" then [] else begin
    let n = String.length s in
    let rec go i acc = if i >= n then acc else
        let b = match s.[i] with '0' -> B0 | '1' -> B1 | 'X' | 'x' -> BX | c -> failwith (Printf.sprintf "bad bit %c" c) in
        go (i + 1) (b :: acc) in
    go 0 []
  end

let string_of_bv (x : bv) : string =
  if x = [] then "-" else begin
    let b = Buffer.create 64 in
    List.iter (fun t -> Buffer.add_char b (match t with B0 -> '0' | B1 -> '1' | BX -> 'X')) (List.rev x);
    Buffer.contents b
  end

let sty_of = function "U" -> TU | "S" -> TS | "V" -> TV | "B" -> TB | s -> failwith ("bad type " ^ s)
let char_of_sty = function TU -> 'U' | TS -> 'S' | TV -> 'V' | TB -> 'B'
let char_of_pol = function PNone -> 'n' | PZero -> 'z' | POne -> 'o' | PSign -> 's'
let pol_opt = function "z" -> Some PZero | "o" -> Some POne | "s" -> Some PSign | "d" -> None | s -> failwith ("bad policy " ^ s)

let string_of_sval (v : sval) : string =
  Printf.sprintf "%c%c:%s" (char_of_sty v.sv_ty) (char_of_pol v.sv_pol) (string_of_bv v.sv_bits)

let ni s = nat_of_int (int_of_string s)

let digit_of_char (c : char) : n option =
  let v k = Some (n_of_decimal (string_of_int k)) in
  match c with
  | '0' .. '9' -> v (Char.code c - 48)
  | 'a' .. 'f' -> v (Char.code c - 87)
  | 'A' .. 'F' -> v (Char.code c - 55)
  | 'x' | 'X' -> None
  | _ -> failwith "bad digit"

let arith = function "add" -> A_ADD | "sub" -> A_SUB | "mul" -> A_MUL | "div" -> A_DIV | "rem" -> A_REM | s -> failwith s
let logic = function "and" -> L_AND | "or" -> L_OR | "xor" -> L_XOR | "nand" -> L_NAND | "nor" -> L_NOR | "xnor" -> L_EQ | s -> failwith s
let cmp = function "eq" -> C_EQ | "neq" -> C_NEQ | "lt" -> C_LT | "gt" -> C_GT | "leq" -> C_LEQ | "geq" -> C_GEQ | s -> failwith s

(* node tokens -> (operator, operand indices) ; pins are handled by the caller *)
let parse_node (t : string list) : fop * int list =
  let refs l = List.map int_of_string l in
  match t with
  | ["lits"; ty; w; base; digits] ->
    let ds = if digits = "_" then [] else List.init (String.length digits) (fun i -> digit_of_char digits.[i]) in
    (F_lit_str (sty_of ty, ni w, (match base with "b" -> LB_BIN | "o" -> LB_OCT | "x" -> LB_HEX | _ -> failwith "bad base"), ds), [])
  | ["litd"; ty; w; n] -> (F_lit_dec (sty_of ty, ni w, n_of_decimal n), [])
  | ["liti"; ty; z] -> (F_lit_int (sty_of ty, z_of_decimal z), [])
  | ["litb"; b] -> (F_lit_bit (match b with "0" -> B0 | "1" -> B1 | _ -> BX), [])
  | ["const"; ty; v; w] -> (F_const (sty_of ty, n_of_decimal v, ni w), [])
  | ["undef"; ty; w] -> (F_undef (sty_of ty, ni w), [])
  | ["not"; a] -> (F_not, refs [a])
  | ["abs"; a] -> (F_abs, refs [a])
  | ["cast"; ty; a] -> (F_cast (sty_of ty), refs [a])
  | ["extto"; p; w; a] -> (F_ext_to (pol_opt p, ni w), refs [a])
  | ["extby"; p; n; a] -> (F_ext_by (pol_opt p, ni n), refs [a])
  | ["extred"; p; n; a] -> (F_ext_reduce (pol_opt p, ni n), refs [a])
  | ["slice"; off; w; a] -> (F_slice (ni off, ni w), refs [a])
  | ["upper"; w; a] -> (F_upper (ni w), refs [a])
  | ["lower"; w; a] -> (F_lower (ni w), refs [a])
  | ["upperR"; r; a] -> (F_upperR (ni r), refs [a])
  | ["lowerR"; r; a] -> (F_lowerR (ni r), refs [a])
  | ["msb"; a] -> (F_msb, refs [a])
  | ["lsb"; a] -> (F_lsb, refs [a])
  | ["bit"; i; a] -> (F_bit (ni i), refs [a])
  | ["bitn"; i; a] -> (F_bitn (z_of_decimal i), refs [a])
  | ["shl"; n; a] -> (F_shl (ni n), refs [a])
  | ["shr"; n; a] -> (F_shr (ni n), refs [a])
  | ["rotl"; n; a] -> (F_rot (z_of_decimal n), refs [a])
  | ["rotr"; n; a] -> (F_rot (z_of_decimal (if n = "0" then "0" else "-" ^ n)), refs [a])
  | [("add" | "sub" | "mul" | "div" | "rem") as o; a; b] -> (F_arith (arith o), refs [a; b])
  | ["addc"; a; b; c] -> (F_addc, refs [a; b; c])
  | [("and" | "or" | "xor" | "nand" | "nor" | "xnor") as o; a; b] -> (F_logic (logic o), refs [a; b])
  | [("eq" | "neq" | "lt" | "gt" | "leq" | "geq") as o; a; b] -> (F_cmp (cmp o), refs [a; b])
  | ["zshl"; a; b] -> (F_dshift (SH_LEFT, F_ZERO), refs [a; b])
  | ["oshl"; a; b] -> (F_dshift (SH_LEFT, F_ONE), refs [a; b])
  | ["sshl"; a; b] -> (F_dshift (SH_LEFT, F_LAST), refs [a; b])
  | ["zshr"; a; b] -> (F_dshift (SH_RIGHT, F_ZERO), refs [a; b])
  | ["oshr"; a; b] -> (F_dshift (SH_RIGHT, F_ONE), refs [a; b])
  | ["sshr"; a; b] -> (F_dshift (SH_RIGHT, F_LAST), refs [a; b])
  | ["drotl"; a; b] -> (F_dshift (SH_LEFT, F_ROTATE), refs [a; b])
  | ["drotr"; a; b] -> (F_dshift (SH_RIGHT, F_ROTATE), refs [a; b])
  | ["dshl"; a; b] -> (F_dshl, refs [a; b])
  | ["dshr"; a; b] -> (F_dshr, refs [a; b])
  | ["shra"; n; a; c] -> (F_shra (ni n), refs [a; c])
  | ["dshra"; a; b; c] -> (F_dshra, refs [a; b; c])
  | ["dynbit"; a; i] -> (F_dynbit, refs [a; i])
  | ["dynslice"; w; a; off] -> (F_dynslice (ni w), refs [a; off])
  | "mslice" :: spec :: l when l <> [] ->
    let form = function
      | ["d"; w; k] -> SF_dyn (ni w, ni k)
      | ["p"; p; k] | ["q"; p; k] -> SF_part (ni p, ni k)
      | ["b"; k] -> SF_dynbit (ni k)
      | ["s"; o; w] -> SF_static (ni o, ni w)
      | ["t"; p; i] -> SF_spart (ni p, ni i)
      | ["i"; i] -> SF_bit (ni i)
      | ["m"] -> SF_msb | ["l"] -> SF_lsb
      | ["u"; w] -> SF_upper (ni w) | ["o"; w] -> SF_lower (ni w)
      | ["a"] -> SF_abs | ["M"; k] -> SF_mul (ni k) | ["L"; k] -> SF_lt (ni k)
      | _ -> failwith ("bad slice form in " ^ spec) in
    let item it =
      match String.split_on_char ':' it with
      | ["g"; v] -> SR_assign (ni v)
      | hd :: rest when String.length hd >= 2 && hd.[0] = 'r' -> SR_read (form (String.sub hd 1 (String.length hd - 1) :: rest))
      | hd :: rest when String.length hd >= 2 && hd.[0] = 'w' ->
        (match List.rev rest with
         | v :: fr -> SR_write (form (String.sub hd 1 (String.length hd - 1) :: List.rev fr), ni v)
         | [] -> failwith ("write without value in " ^ spec))
      | _ -> failwith ("bad slice request " ^ it) in
    (F_mslice (List.map item (String.split_on_char ',' spec)), refs l)
  | "cat" :: l when l <> [] -> (F_cat, refs l)
  | "pack" :: l when l <> [] -> (F_pack, refs l)
  | "mux" :: sel :: l when l <> [] -> (F_mux, refs (sel :: l))
  | _ -> failwith ("bad node: " ^ String.concat " " t)

type node = Pin of sty * int | Op of fop * int list

exception Rejected of int

let run_case (idx : int) (line : string) (oc : out_channel) : unit =
  let parts = String.split_on_char '|' line in
  let nodes = List.map (fun s ->
      match words s with
      | ["pin"; ty; w] -> Pin (sty_of ty, int_of_string w)
      | t -> let (o, r) = parse_node t in Op (o, r))
      (String.split_on_char ';' (List.hd parts)) in
  let vecs = match List.map words (List.tl parts) with [] -> [[]] | l -> l in
  try
    let lines = List.mapi (fun vi vec ->
        let vals = ref [||] and pins = ref vec in
        List.iteri (fun j nd ->
            let v = match nd with
              | Pin (ty, w) ->
                (match !pins with
                 | p :: rest -> pins := rest;
                   let b = bv_of_string p in
                   if List.length b <> w then failwith "vector width";
                   { sv_ty = ty; sv_pol = PNone; sv_bits = b }
                 | [] -> failwith "vector arity")
              | Op (o, refs) ->
                (match fe_apply o (List.map (fun r -> (!vals).(r)) refs) with
                 | Some v -> v
                 | None -> raise (Rejected j)) in
            vals := Array.append !vals [| v |]) nodes;
        Printf.sprintf "%d V %d %s" idx vi (String.concat " " (Array.to_list (Array.map string_of_sval !vals)))) vecs in
    List.iter (fun l -> output_string oc (l ^ "\n")) lines
  with Rejected j -> Printf.fprintf oc "%d R %d\n" idx j

let () =
  let ic = open_in Sys.argv.(1) and oc = open_out Sys.argv.(2) in
  let idx = ref 0 in
  (try
     while true do
       let line = input_line ic in
       if line <> "" && line.[0] <> '#' then begin
         (try run_case !idx line oc
          with Failure m -> Printf.fprintf oc "%d E %s\n" !idx m
             | Invalid_argument m -> Printf.fprintf oc "%d E %s\n" !idx m
             | Not_found -> Printf.fprintf oc "%d E not found\n" !idx);
         incr idx
       end
     done
   with End_of_file -> ());
  close_out oc
