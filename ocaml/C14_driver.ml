(* C14 driver: evaluates the extracted Conjunction model on the case file the C++ harness ran. *)
open C14_model

let rec nat_of_int n = if n <= 0 then O else S (nat_of_int (n - 1))
let rec int_of_nat = function O -> 0 | S n -> 1 + int_of_nat n
let drv s = if s = "-" then None else Some (nat_of_int (int_of_string s))
let oint = function None -> -1 | Some n -> int_of_nat n
let b2i b = if b then 1 else 0

let terms_str (c : conj) =
  let ts = List.map (fun t -> (int_of_nat t.t_driver, b2i t.t_neg, oint t.t_cdrv)) c.c_terms in
  let ts = List.sort compare ts in
  String.concat "" (List.map (fun (d, n, c) -> Printf.sprintf "%d:%d:%d," d n c) ts)

let run_case oc id (nodes : pnode list) (roots : int list) =
  let g = nodes in
  let conj = List.map (fun r -> (r, parse g (Some (nat_of_int r)))) roots in
  if List.exists (fun (_, c) -> c = None) conj then Printf.fprintf oc "FUEL %s\n" id
  else begin
    let conj = List.map (fun (r, c) -> match c with Some c -> (r, c) | None -> assert false) conj in
    List.iter (fun (r, c) ->
      Printf.fprintf oc "P %s %d %d %d %s\n" id r (b2i c.c_undef) (b2i c.c_contra) (terms_str c)) conj;
    List.iter (fun (ra, a) -> List.iter (fun (rb, b) ->
      let cb = b2i (cannotBothBeTrue a b) in
      let same = b2i (conj_same a b) in
      Printf.fprintf oc "Q %s %d %d %d%d%d%d%d%d%d\n" id ra rb (b2i (isEqualTo a b)) (b2i (isNegationOf a b))
        (b2i (isSubsetOf a b)) cb cb same same) conj) conj;
    List.iter (fun (ra, a) -> List.iter (fun (rb, b) ->
      Printf.fprintf oc "I %s %d %d %s\n" id ra rb (terms_str (intersectTermsWith a b));
      if removeTerms_pre a b then Printf.fprintf oc "R %s %d %d %s\n" id ra rb (terms_str (removeTerms a b))
      else Printf.fprintf oc "R %s %d %d pre0\n" id ra rb) conj) conj;
    (* build is applied successively to the growing graph, as the harness does on the one circuit *)
    let g = ref g in
    List.iter (fun (r, c) ->
      if not c.c_undef && not c.c_contra then begin
        let (g2, out) = build !g c in
        g := g2;
        match parse g2 out with
        | None -> Printf.fprintf oc "FUEL %s\n" id
        | Some c2 -> Printf.fprintf oc "B %s %d %d %d %d %s\n" id r (oint out) (b2i c2.c_undef) (b2i c2.c_contra) (terms_str c2)
      end) conj
  end

let () =
  let ic = open_in Sys.argv.(1) and oc = open_out Sys.argv.(2) in
  let id = ref "" and nodes = ref [] and roots = ref [] in
  (try while true do
    let line = input_line ic in
    match String.split_on_char ' ' (String.trim line) with
    | ["case"; i] -> id := i; nodes := []; roots := []
    | "roots" :: rs -> roots := List.map int_of_string (List.filter (fun s -> s <> "") rs)
    | ["end"] -> run_case oc !id (List.rev !nodes) !roots
    | ["A"] -> nodes := PAtom :: !nodes
    | ["C0"] -> nodes := PConst B0 :: !nodes
    | ["C1"] -> nodes := PConst B1 :: !nodes
    | ["CX"] -> nodes := PConst BX :: !nodes
    | ["N"; d] -> nodes := PNot (drv d) :: !nodes
    | ["&"; d1; d2] -> nodes := PAnd (drv d1, drv d2) :: !nodes
    | ["S"; d] -> nodes := PSignal (drv d) :: !nodes
    | ["O"; _; _] -> nodes := PAtom :: !nodes
    | ["M"; _] -> nodes := PAtom :: !nodes          (* output port 0 of an opaque multi-output node *)
    | ["P"; _; _] -> nodes := PAtom :: !nodes       (* another output port of that node: a different atom *)
    | [""] | [] -> ()
    | _ -> failwith ("bad line: " ^ line)
  done with End_of_file -> ());
  close_out oc
