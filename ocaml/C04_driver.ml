(* C04 driver: runs the extracted Coq scheduler + register semantics (C04_model = SchedDefs.v) on the
   case file the C++ harness consumed and prints the same canonical lines.
     driver <casefile> [shuffle-seed]
   The combinational network of a case (`d=` / `en=` expressions) is interpreted here and handed to
   the model as its `network` argument; everything else (clock tree, pin allocation, reset hold times,
   event schedule, register update, order of events inside an instant) is computed by extracted code.
   All times are exact rationals (extracted Q over binary integers); nothing here uses floats. *)
open C04_model

(* ---------------------------------------------------------------- conversions *)
let rec nat_of_int (i : int) : nat = if i <= 0 then O else S (nat_of_int (i - 1))
let rec int_of_nat (n : nat) : int = match n with O -> 0 | S m -> 1 + int_of_nat m

let rec pos_of_int (i : int) : positive =
  if i <= 1 then XH else if i land 1 = 1 then XI (pos_of_int (i lsr 1)) else XO (pos_of_int (i lsr 1))
let n_of_int (i : int) : n = if i = 0 then N0 else Npos (pos_of_int i)
let z_of_int (i : int) : z = if i = 0 then Z0 else if i > 0 then Zpos (pos_of_int i) else Zneg (pos_of_int (-i))

let rec int_of_pos (p : positive) : int =
  let chk v = if v < 0 || v > (max_int lsr 2) then failwith "number too large for the printer" else v in
  match p with XH -> 1 | XO q -> 2 * chk (int_of_pos q) | XI q -> 2 * chk (int_of_pos q) + 1
let int_of_n (x : n) : int = match x with N0 -> 0 | Npos p -> int_of_pos p
let int_of_z (x : z) : int = match x with Z0 -> 0 | Zpos p -> int_of_pos p | Zneg p -> - (int_of_pos p)

let q_of_string (s : string) : q =
  match String.index_opt s '/' with
  | None -> failwith ("bad rational " ^ s)
  | Some i ->
    let a = int_of_string (String.sub s 0 i) and b = int_of_string (String.sub s (i + 1) (String.length s - i - 1)) in
    if b <= 0 then failwith "bad denominator";
    { qnum = z_of_int a; qden = pos_of_int b }

let rec gcd a b = if b = 0 then a else gcd b (a mod b)
let string_of_q (x : q) : string =
  let a = int_of_z x.qnum and b = int_of_pos x.qden in
  let g = gcd (abs a) b in
  let g = if g = 0 then 1 else g in
  Printf.sprintf "%d/%d" (a / g) (b / g)

(* MSB-first 01X string <-> LSB-first tbit list *)
let bv_of_string (s : string) : bv =
  let l = ref [] in
  String.iter (fun c -> l := (match c with '0' -> B0 | '1' -> B1 | 'X' | 'x' -> BX | _ -> failwith ("bad bits " ^ s)) :: !l) s;
  !l
let string_of_bv (v : bv) : string =
  String.concat "" (List.rev_map (function B0 -> "0" | B1 -> "1" | BX -> "X") v)

(* ---------------------------------------------------------------- expressions *)
type expr =
  | Reg of int | In of int | Const of bv
  | Xor of expr * expr | And of expr * expr | Or of expr * expr | Not of expr | Inc of expr | Bit of int * expr

let parse_expr (s : string) : expr =
  let p = ref 0 in
  let n = String.length s in
  let num () =
    let q = ref !p in
    while !q < n && s.[!q] >= '0' && s.[!q] <= '9' do incr q done;
    if !q = !p then failwith "expr: number expected";
    let v = int_of_string (String.sub s !p (!q - !p)) in p := !q; v in
  let expect c = if !p < n && s.[!p] = c then incr p else failwith (Printf.sprintf "expr: %c expected in %s" c s) in
  let rec go () =
    if !p >= n then failwith "expr: unexpected end";
    let c = s.[!p] in
    incr p;
    match c with
    | 'r' -> Reg (num ())
    | 'i' -> In (num ())
    | 'c' ->
      let q = ref !p in
      while !q < n && (s.[!q] = '0' || s.[!q] = '1' || s.[!q] = 'X') do incr q done;
      let b = String.sub s !p (!q - !p) in p := !q; Const (bv_of_string b)
    | 'x' -> let (a, b) = two () in Xor (a, b)
    | 'a' -> let (a, b) = two () in And (a, b)
    | 'o' -> let (a, b) = two () in Or (a, b)
    | 'n' -> Not (one ())
    | 'p' -> Inc (one ())
    | 'b' -> let k = num () in Bit (k, one ())
    | _ -> failwith ("expr: unknown operator in " ^ s)
  and one () = expect '('; let a = go () in expect ')'; a
  and two () = expect '('; let a = go () in expect ','; let b = go () in expect ')'; (a, b) in
  let e = go () in
  if !p <> n then failwith ("expr: trailing characters in " ^ s);
  e

(* four-state evaluation as the simulator's Node_Logic / Node_Arithmetic / Node_Rewire do it:
   xor/not per bit, and/or with the dominating value, +1 all-or-nothing *)
let rec eval (outs : bv list) (ins : bv list) (e : expr) : bv =
  match e with
  | Reg i -> List.nth outs i
  | In i -> List.nth ins i
  | Const v -> v
  | Xor (a, b) -> List.map2 (fun x y -> match x, y with BX, _ | _, BX -> BX | _ -> if x = y then B0 else B1) (eval outs ins a) (eval outs ins b)
  | And (a, b) -> List.map2 (fun x y -> match x, y with B0, _ | _, B0 -> B0 | B1, B1 -> B1 | _ -> BX) (eval outs ins a) (eval outs ins b)
  | Or (a, b) -> List.map2 (fun x y -> match x, y with B1, _ | _, B1 -> B1 | B0, B0 -> B0 | _ -> BX) (eval outs ins a) (eval outs ins b)
  | Not a -> List.map (function B0 -> B1 | B1 -> B0 | BX -> BX) (eval outs ins a)
  | Inc a ->
    let v = eval outs ins a in
    if List.mem BX v then List.map (fun _ -> BX) v
    else begin
      let carry = ref true in
      List.map (fun b -> let bit = (b = B1) in let r = bit <> !carry in carry := bit && !carry; if r then B1 else B0) v
    end
  | Bit (k, a) -> [ List.nth (eval outs ins a) k ]

(* ---------------------------------------------------------------- case file *)
let split (s : string) : string list = List.filter (fun x -> x <> "") (String.split_on_char ' ' s)
let kv (tok : string list) (key : string) : string =
  let pre = key ^ "=" in
  let l = String.length pre in
  match List.find_opt (fun t -> String.length t >= l && String.sub t 0 l = pre) tok with
  | Some t -> String.sub t l (String.length t - l)
  | None -> failwith ("missing key " ^ key)

type case = {
  mutable id : string;
  mutable clocks : clock_config list;
  mutable inputs : (nat * nat) list;
  mutable regs : reg list;
  mutable nets : (expr option * expr option) list;
  mutable scopes : (char * expr option) list option list;   (* per register: None = enable attached directly *)
  mutable order : nat list option;
  mutable rstev : ((q * nat) * bool) list;
  mutable stim : (q * (nat * bv) list) list;
  mutable steps : int;
}

let shuffle_seed = ref 0
(* deterministic Fisher-Yates driven by a small LCG: the order in which clocked nodes are visited must not matter *)
let shuffle (l : 'a list) (seed : int) : 'a list =
  let a = Array.of_list l in
  let st = ref (seed * 2654435761 + 12345) in
  let next m = st := (!st * 1103515245 + 12345) land 0x3fffffff; (!st lsr 8) mod m in
  for i = Array.length a - 1 downto 1 do
    let j = next (i + 1) in
    let t = a.(i) in a.(i) <- a.(j); a.(j) <- t
  done;
  Array.to_list a

let run_case (c : case) =
  Printf.printf "case %s\n" c.id;
  let nregs = List.length c.regs in
  let order = match c.order with
    | Some o -> o
    | None -> List.init nregs nat_of_int in
  let order = if !shuffle_seed <> 0 then shuffle order (!shuffle_seed + Hashtbl.hash c.id) else order in
  (* unset ClockConfig fields are resolved by the extracted model (constructor copy + applyConfig) *)
  let clocks = resolve_clocks c.clocks in
  List.iteri (fun i k ->
      Printf.printf "E %d trig=%s rst=%s act=%s init=%d psync=%d name=%d rstname=%d f=%s\n" i
        (match k.ck_trig with RISING -> "R" | FALLING -> "F" | RISING_AND_FALLING -> "B")
        (match k.ck_rst with RST_SYNC -> "S" | RST_ASYNC -> "A" | RST_NONE -> "N")
        (if k.ck_active_high then "H" else "L") (if k.ck_initregs then 1 else 0) (if k.ck_phasesync then 1 else 0)
        (int_of_n k.ck_name) (int_of_n k.ck_rstname) (string_of_q k.ck_freq)) clocks;
  let cfg = { cfg_clocks = clocks; cfg_regs = c.regs; cfg_inputs = c.inputs; cfg_order = order;
              cfg_rstev = c.rstev; cfg_stim = c.stim } in
  let nets = Array.of_list c.nets in
  let scopes = Array.of_list c.scopes in
  let comb : network = fun outs ins r ->
    let (d, en) = nets.(int_of_nat r) in
    let d' = match d with None -> None | Some e -> Some (eval outs ins e) in
    let bit e = match eval outs ins e with [ b ] -> b | _ -> failwith "enable / condition must be one bit" in
    let en' = match scopes.(int_of_nat r) with
      | None -> (match en with None -> None | Some e -> Some (bit e))
      | Some sc ->
        (* the condition VALUES go through the extracted scope model (EnableScope / ConditionalScope accumulation) *)
        scope_enable (List.map (fun (k, e) ->
            match k, e with
            | 'E', Some e -> SC_EN (bit e) | 'I', Some e -> SC_IF (bit e) | 'L', Some e -> SC_ELSE (bit e)
            | 'A', _ -> SC_ALWAYS | _ -> failwith "bad scope") sc) in
    (d', en') in
  List.iter (fun (((i, pin), rst), f) ->
      Printf.printf "A %d pin=%d rst=%s f=%s\n" (int_of_nat i) (int_of_nat pin)
        (match rst with None -> "-" | Some s -> string_of_int (int_of_nat s)) (string_of_q f))
    (alloc_summary cfg);
  List.iter (fun s -> Printf.printf "H %d %s\n" (int_of_nat s) (string_of_q (reset_hold_time cfg s))) (reset_pins cfg);
  let logs = simulate cfg comb (nat_of_int c.steps) in
  List.iter (fun lg ->
      let clk = List.sort compare (List.map (fun ((p, r), k) -> (int_of_nat p, r, int_of_n k)) lg.lg_clk) in
      let rst = List.stable_sort (fun (a, _) (b, _) -> compare a b) (List.map (fun (p, l) -> (int_of_nat p, l)) lg.lg_rst) in
      Printf.printf "T %s C %s R %s V%s\n" (string_of_q lg.lg_time)
        (if clk = [] then "-" else String.concat "," (List.map (fun (p, r, k) -> Printf.sprintf "%d:%s:%d" p (if r then "r" else "f") k) clk))
        (if rst = [] then "-" else String.concat "," (List.map (fun (p, l) -> Printf.sprintf "%d:%d" p (if l then 1 else 0)) rst))
        (String.concat "" (List.map (fun v -> " " ^ string_of_bv v) lg.lg_regs)))
    logs;
  Printf.printf "end\n"

let () =
  if Array.length Sys.argv < 2 then (prerr_endline "usage: driver <casefile> [shuffle-seed]"; exit 2);
  if Array.length Sys.argv > 2 then shuffle_seed := int_of_string Sys.argv.(2);
  let ic = open_in Sys.argv.(1) in
  let cur = ref None in
  let fresh id = { id; clocks = []; inputs = []; regs = []; nets = []; scopes = []; order = None; rstev = []; stim = []; steps = 0 } in
  (try
     while true do
       let line = input_line ic in
       let tok = split line in
       match tok with
       | [] -> ()
       | t :: _ when t.[0] = '#' -> ()
       | "case" :: id :: _ -> cur := Some (fresh id)
       | _ ->
         let c = match !cur with Some c -> c | None -> failwith ("line outside a case: " ^ line) in
         (match tok with
          | "clock" :: _ :: _ ->
            let opt s f = if s = "-" then None else Some (f s) in
            let trig = opt (kv tok "trig") (function "R" -> RISING | "F" -> FALLING | "B" -> RISING_AND_FALLING | s -> failwith ("trig " ^ s)) in
            let rst = opt (kv tok "rst") (function "S" -> RST_SYNC | "A" -> RST_ASYNC | "N" -> RST_NONE | s -> failwith ("rst " ^ s)) in
            let ck = { cc_parent = (match kv tok "parent" with "-" -> None | p -> Some (nat_of_int (int_of_string p)));
                       cc_freq = opt (kv tok "freq") q_of_string;
                       cc_name = opt (kv tok "name") (fun s -> n_of_int (int_of_string s));
                       cc_rstname = opt (kv tok "rstname") (fun s -> n_of_int (int_of_string s));
                       cc_trig = trig; cc_phasesync = opt (kv tok "psync") (fun s -> s = "1"); cc_rst = rst;
                       cc_active_high = opt (kv tok "act") (fun s -> s = "H"); cc_initregs = opt (kv tok "init") (fun s -> s = "1");
                       cc_minrsttime = q_of_string (kv tok "mrt");
                       cc_minrstcycles = n_of_int (int_of_string (kv tok "mrc")) } in
            c.clocks <- c.clocks @ [ ck ]
          | "input" :: _ :: _ ->
            c.inputs <- c.inputs @ [ (nat_of_int (int_of_string (kv tok "w")), nat_of_int (int_of_string (kv tok "clk"))) ]
          | "reg" :: _ :: _ ->
            let rv = match kv tok "rstval" with "-" -> None | b -> Some (bv_of_string b) in
            c.regs <- c.regs @ [ { rg_clk = nat_of_int (int_of_string (kv tok "clk")); rg_width = nat_of_int (int_of_string (kv tok "w")); rg_rstval = rv } ];
            let ex s = if s = "-" then None else Some (parse_expr s) in
            c.nets <- c.nets @ [ (ex (kv tok "d"), ex (kv tok "en")) ];
            let sc = match List.find_opt (fun t -> String.length t >= 7 && String.sub t 0 7 = "scopes=") tok with
              | None -> None
              | Some t ->
                Some (List.map (fun x ->
                    if x = "A" then ('A', None)
                    else (x.[0], Some (parse_expr (String.sub x 2 (String.length x - 2)))))
                    (List.filter (fun x -> x <> "") (String.split_on_char ';' (String.sub t 7 (String.length t - 7))))) in
            c.scopes <- c.scopes @ [ sc ]
          | "order" :: l -> c.order <- Some (List.map (fun s -> nat_of_int (int_of_string s)) l)
          | [ "rstev"; t; clk; lv ] -> c.rstev <- c.rstev @ [ ((q_of_string t, nat_of_int (int_of_string clk)), lv = "1") ]
          | "stim" :: t :: ws ->
            let w = List.map (fun s -> match String.index_opt s '=' with
                | Some i -> (nat_of_int (int_of_string (String.sub s 0 i)), bv_of_string (String.sub s (i + 1) (String.length s - i - 1)))
                | None -> failwith ("stim " ^ s)) ws in
            c.stim <- c.stim @ [ (q_of_string t, w) ]
          | [ "steps"; n ] -> c.steps <- int_of_string n
          | [ "end" ] -> run_case c; cur := None
          | _ -> failwith ("unknown line: " ^ line))
     done
   with End_of_file -> ());
  close_in ic
